//! C15 — malformed proofs are rejected with an error, never a panic or a weaker circuit.
//!
//! Domain: honest `(proof, common data / preprocessed commitment, FRI verifier parameters,
//! public values)` bundles of the uni-STARK and batch-STARK configurations the repository's
//! own integration tests construct (`recursion/tests/*.rs`), serialised with
//! `serde_json::to_value`, x 1-2 STRUCTURAL alterations addressed by JSON path:
//! `Truncate(array, n)`, `Extend(array, copies of the last element)`, `Empty(array)`,
//! `Toggle` (Some <-> None where the type allows) and count / degree edits (`degree_bits`,
//! `log_arity`, FRI parameters, `rows`, `lanes`, preprocessed instance metadata,
//! `matrix_to_instance` ...).  Single-value alterations are C01's business.
//!
//! The schema (which arrays are variable-length, which numeric leaves are counts, which nodes
//! are `Option`s) is discovered by probing the deserialiser, so nothing is hard-wired to a
//! proof layout and deserialisation failures of mutated bundles stay rare.
//!
//! Oracle, per mutated bundle, everything under `catch_unwind`:
//!  (i)   the pipeline `allocate -> verify_*_circuit -> build -> pack -> set public / private /
//!        MMCS private data -> run` never panics (`C15/panic:<file>::<fn>:<message>:<class>:<op>`);
//!  (ii)  it is never `Ok` end-to-end when the native verifier (`p3_uni_stark::
//!        verify_with_preprocessed`, `p3_batch_stark::verify_batch`, `BatchStarkProver::
//!        verify_all_tables`) rejects the same objects (`C15/weaker-circuit:...`);
//!  (iii) a length change of a vector the code documents as shape-validated must be rejected
//!        by `verify_*_circuit` itself with `InvalidProofShape` / `RandomizationError`; any
//!        later rejection is the weaker finding class `C15/late-rejection:...`.
//! A native panic gives no verdict (discarded, counted); a bundle that no longer deserialises
//! is not a well-formed value (discarded, counted).

#![allow(clippy::type_complexity)]

use std::cell::{Cell, RefCell};
use std::collections::{BTreeMap, BTreeSet};
use std::sync::{Mutex, OnceLock};

use proptest::prelude::*;
use serde::{Deserialize, Serialize};
use serde_json::Value;

use crate::fw::{Ctx, Report, catch, hash_of, pick, sig_of_panic};
use crate::jsonmut::{self, Path, PathSeg};

// ------------------------------------------------------------------------------------------
// case types
// ------------------------------------------------------------------------------------------

#[derive(Clone, Copy, Debug, Serialize, Deserialize, Hash, PartialEq, Eq)]
pub enum CountEdit {
    Inc,
    Dec,
    Zero,
    One,
    Double,
    Half,
    /// small absolute value
    Set(u8),
    /// `1 << k` (k mod 64); k in {16, 20, 27, 31, 32, 33, 62, 63} are the interesting ones
    Pow2(u8),
    /// a plain large exponent-like value (k itself, e.g. 27, 28, 31, 32, 63, 64, 65, 255)
    Big(u8),
    /// `usize::MAX`
    Max,
}

#[derive(Clone, Debug, Serialize, Deserialize, Hash, PartialEq, Eq)]
pub enum Op {
    /// new length = `pick(k, len)`, always strictly shorter
    Truncate(u16),
    /// append `1 + k % 3` copies of the last element
    Extend(u8),
    Empty,
    /// `Some(x) -> None`, `None -> Some(template)`
    Toggle,
    /// `None -> Some(template with every number set to 0)`: an added optional part whose value
    /// is neutral for sums / products it may silently take part in (no-op on a `Some`)
    ToggleZero,
    Count(CountEdit),
}

impl Op {
    fn name(&self) -> String {
        match self {
            Op::Truncate(_) => "truncate".into(),
            Op::Extend(_) => "extend".into(),
            Op::Empty => "empty".into(),
            Op::Toggle => "toggle".into(),
            Op::ToggleZero => "toggle-zero".into(),
            Op::Count(c) => match c {
                CountEdit::Set(_) => "count-set".into(),
                CountEdit::Pow2(_) => "count-pow2".into(),
                CountEdit::Big(_) => "count-big".into(),
                o => format!("count-{o:?}").to_lowercase(),
            },
        }
    }
}

#[derive(Clone, Debug, Serialize, Deserialize, Hash, PartialEq, Eq)]
pub struct Mutation {
    /// selects the target class (JSON path with indices erased) among those the operator applies to
    pub class: u16,
    /// selects the target inside the class
    pub item: u16,
    pub op: Op,
    /// explicit concrete JSON path (enumerations, hand-written replays); overrides class/item
    #[serde(default)]
    pub path: Option<String>,
}

#[derive(Clone, Debug, Serialize, Deserialize, Hash, PartialEq, Eq)]
pub struct Case {
    /// index into `configs()`
    pub cfg: u8,
    pub muts: Vec<Mutation>,
}

// ------------------------------------------------------------------------------------------
// pipeline outcome
// ------------------------------------------------------------------------------------------

#[derive(Clone, Debug)]
pub enum Native {
    Ok,
    Reject(String),
    /// the payload is kept for `Debug` output of the self-check
    Panic(#[allow(dead_code)] String),
}

#[derive(Clone, Debug)]
pub struct Rej {
    pub stage: &'static str,
    pub variant: &'static str,
    pub msg: String,
}

#[derive(Clone, Debug)]
pub enum Pipe {
    Ok,
    Reject(Rej),
    Panic {
        stage: &'static str,
        site: String,
        msg: String,
    },
}

pub struct Eval {
    pub native: Native,
    pub pipe: Pipe,
}

thread_local! {
    static STAGE: Cell<&'static str> = const { Cell::new("-") };
    static LAST_LOC: RefCell<Option<(String, u32)>> = const { RefCell::new(None) };
}
/// fallback when the panic happened on another (rayon) thread: message -> location
static LOC_BY_MSG: Mutex<BTreeMap<String, (String, u32)>> = Mutex::new(BTreeMap::new());

fn stage(s: &'static str) {
    STAGE.with(|c| c.set(s));
}

pub fn install_hook() {
    std::panic::set_hook(Box::new(|info| {
        if let Some(loc) = info.location() {
            let mut l = (loc.file().to_string(), loc.line());
            if l.0.contains("/rustc/") || l.0.starts_with("library/") || l.0.contains("/library/") {
                // a panic raised inside the standard library (capacity overflow, slice index
                // helpers compiled into std ...): name the first non-std frame instead
                let bt = std::backtrace::Backtrace::force_capture().to_string();
                let frame = bt
                    .lines()
                    .map(|x| x.trim())
                    .filter_map(|x| x.split_once(": ").map(|(_, f)| f))
                    .find(|f| f.contains("p3_") && !f.contains("verif::"));
                l = match frame {
                    Some(f) => {
                        let f: String = f.split("::h").next().unwrap_or(f).chars().take(120).collect();
                        (format!("std->{f}"), 0)
                    }
                    // everything between the harness closure and std was inlined
                    None => (format!("std->(inlined, stage {})", STAGE.with(|c| c.get())), 0),
                };
            }
            LAST_LOC.with(|c| *c.borrow_mut() = Some(l.clone()));
            let msg = if let Some(s) = info.payload().downcast_ref::<&str>() {
                (*s).to_string()
            } else if let Some(s) = info.payload().downcast_ref::<String>() {
                s.clone()
            } else {
                String::new()
            };
            if let Ok(mut m) = LOC_BY_MSG.lock() {
                if m.len() < 4096 {
                    m.entry(msg).or_insert(l);
                }
            }
        }
        if std::env::var("VERIF_PANIC_TRACE").is_ok() {
            eprintln!("panic: {info}");
        }
    }));
}

/// `<short file>::<enclosing fn>` of a panic location; the enclosing function is found by
/// scanning the source file backwards from the panic line (robust against line shifts).
fn site_of(loc: Option<(String, u32)>) -> String {
    static CACHE: Mutex<BTreeMap<(String, u32), String>> = Mutex::new(BTreeMap::new());
    let Some((file, line)) = loc else {
        return "unknown-site".into();
    };
    if file.starts_with("std->") {
        return file;
    }
    if let Some(s) = CACHE.lock().unwrap().get(&(file.clone(), line)) {
        return s.clone();
    }
    let short = shorten_file(&file);
    let mut func = String::from("?");
    // rustc records paths of path-dependencies as absolute and the crate's own files relative
    // to the manifest directory
    let src = std::fs::read_to_string(&file)
        .or_else(|_| std::fs::read_to_string(std::path::Path::new(env!("CARGO_MANIFEST_DIR")).join(&file)));
    if let Ok(src) = src {
        let lines: Vec<&str> = src.lines().collect();
        let mut i = (line as usize).min(lines.len());
        while i > 0 {
            i -= 1;
            let t = lines[i].trim_start();
            let t = t
                .trim_start_matches("pub(crate) ")
                .trim_start_matches("pub(super) ")
                .trim_start_matches("pub ")
                .trim_start_matches("const ")
                .trim_start_matches("unsafe ")
                .trim_start_matches("async ");
            if let Some(rest) = t.strip_prefix("fn ") {
                func = rest
                    .chars()
                    .take_while(|c| c.is_alphanumeric() || *c == '_')
                    .collect();
                break;
            }
        }
    }
    let s = format!("{short}::{func}");
    CACHE.lock().unwrap().insert((file, line), s.clone());
    s
}

fn shorten_file(file: &str) -> String {
    // this file (the test AIRs live here), however it was reached (`#[path]` include of the
    // fuzz target)
    if file.ends_with("src/checks/c15.rs") {
        return "src/checks/c15.rs".to_string();
    }
    // repo files: keep the path from the crate directory; registry files: crate dir + file
    for marker in ["/recursion/", "/circuit-prover/", "/circuit/", "/poseidon2-circuit-air/", "/test-utils/"] {
        if let Some(i) = file.find(marker) {
            return file[i + 1..].to_string();
        }
    }
    if let Some(i) = file.find("/registry/src/") {
        let rest = &file[i + "/registry/src/".len()..];
        if let Some(j) = rest.find('/') {
            return rest[j + 1..].to_string();
        }
    }
    if let Some(i) = file.find("/library/") {
        return file[i + 1..].to_string();
    }
    file.to_string()
}

/// Run the recursive-verification pipeline under `catch_unwind`.
fn guarded_pipe(f: impl FnOnce() -> Result<(), Rej>) -> Pipe {
    stage("alloc");
    LAST_LOC.with(|c| *c.borrow_mut() = None);
    match catch(f) {
        Ok(Ok(())) => Pipe::Ok,
        Ok(Err(r)) => Pipe::Reject(r),
        Err(msg) => {
            let loc = LAST_LOC
                .with(|c| c.borrow_mut().take())
                .or_else(|| LOC_BY_MSG.lock().ok().and_then(|m| m.get(&msg).cloned()));
            let stage = STAGE.with(|c| c.get());
            match loc {
                // raised inside std: the first non-std frame depends on inlining (differs between
                // build profiles), so it goes into the message and the signature names the stage
                Some((f, _)) if f.starts_with("std->") => Pipe::Panic {
                    stage,
                    site: format!("std@{stage}"),
                    msg: format!("{msg} [raised inside std; first non-std frame: {}]", &f[5..]),
                },
                loc => Pipe::Panic {
                    stage,
                    site: site_of(loc),
                    msg,
                },
            }
        }
    }
}

fn guarded_native<E: std::fmt::Debug>(f: impl FnOnce() -> Result<(), E>) -> Native {
    match catch(f) {
        Ok(Ok(())) => Native::Ok,
        Ok(Err(e)) => Native::Reject(format!("{e:?}").chars().take(200).collect()),
        Err(m) => Native::Panic(m),
    }
}

fn rej_verr(st: &'static str) -> impl Fn(p3_recursion::VerificationError) -> Rej {
    move |e| {
        use p3_recursion::VerificationError as V;
        let variant = match &e {
            V::InvalidProofShape(_) => "InvalidProofShape",
            V::RandomizationError => "RandomizationError",
            V::Circuit(_) => "Circuit",
            V::CircuitBuilder(_) => "CircuitBuilder",
            V::Generation(_) => "Generation",
        };
        Rej {
            stage: st,
            variant,
            msg: e.to_string().chars().take(300).collect(),
        }
    }
}

fn rej_other<E: std::fmt::Display>(st: &'static str, variant: &'static str) -> impl Fn(E) -> Rej {
    move |e| Rej {
        stage: st,
        variant,
        msg: e.to_string().chars().take(300).collect(),
    }
}

// ------------------------------------------------------------------------------------------
// FRI scalar parameters (the mutable mirror of `FriVerifierParams` / `FriParameters`)
// ------------------------------------------------------------------------------------------

/// The four scalars of `FriVerifierParams`.  `permutation_config` is deliberately not part of
/// the mutable bundle: `None` is the documented-unsound arithmetic-only mode.
#[derive(Clone, Copy, Debug, Serialize, Deserialize)]
pub struct Scalars {
    pub log_blowup: usize,
    pub log_final_poly_len: usize,
    pub commit_pow_bits: usize,
    pub query_pow_bits: usize,
}

impl Scalars {
    fn testing() -> Self {
        let s = p3_test_utils::test_fri_scalars();
        Self {
            log_blowup: s.log_blowup,
            log_final_poly_len: s.log_final_poly_len,
            commit_pow_bits: s.commit_pow_bits,
            query_pow_bits: s.query_pow_bits,
        }
    }
}

/// Values that are not mutated (kept under the `aux` key of every bundle).
#[derive(Clone, Copy, Debug, Serialize, Deserialize)]
pub struct Aux {
    /// `degree_bits` of the verifier's preprocessed key (trusted verifier input)
    pub vk_degree_bits: usize,
    /// native-only FRI parameters (`FriVerifierParams` has no counterpart)
    pub max_log_arity: usize,
    pub num_queries: usize,
}

// ------------------------------------------------------------------------------------------
// test AIRs (copies of recursion/tests/common/mod.rs and recursion/tests/preprocessing.rs,
// with the random preprocessed `b` column replaced by a deterministic one)
// ------------------------------------------------------------------------------------------

pub mod airs {
    use p3_air::{Air, AirBuilder, BaseAir, WindowAccess};
    use p3_field::{Field, PrimeCharacteristicRing};
    use p3_matrix::dense::RowMajorMatrix;

    pub const REPETITIONS: usize = 20;
    pub const MAIN_TRACE_WIDTH: usize = REPETITIONS;
    pub const PREP_WIDTH: usize = REPETITIONS * 2;

    /// `a^(degree-1) * b = c` with `a`, `b` preprocessed.
    #[derive(Clone, Copy)]
    pub struct MulAir {
        pub degree: u64,
        pub rows: usize,
    }

    impl MulAir {
        pub fn traces<Val: Field>(&self) -> (RowMajorMatrix<Val>, RowMajorMatrix<Val>) {
            let mut main = Val::zero_vec(self.rows * MAIN_TRACE_WIDTH);
            let mut prep = Val::zero_vec(self.rows * PREP_WIDTH);
            for i in 0..self.rows * REPETITIONS {
                let row = i / REPETITIONS;
                let a = Val::from_usize(i);
                let b = if row == 0 {
                    a.square() + Val::ONE
                } else {
                    Val::from_usize(i * 7919 + 13)
                };
                prep[2 * i] = a;
                prep[2 * i + 1] = b;
                main[i] = a.exp_u64(self.degree - 1) * b;
            }
            (
                RowMajorMatrix::new(main, MAIN_TRACE_WIDTH),
                RowMajorMatrix::new(prep, PREP_WIDTH),
            )
        }
    }

    impl<Val: Field> BaseAir<Val> for MulAir {
        fn width(&self) -> usize {
            MAIN_TRACE_WIDTH
        }
        fn preprocessed_width(&self) -> usize {
            PREP_WIDTH
        }
        fn preprocessed_trace(&self) -> Option<RowMajorMatrix<Val>> {
            Some(self.traces().1)
        }
    }

    impl<AB: AirBuilder> Air<AB> for MulAir
    where
        AB::F: Field,
    {
        fn eval(&self, builder: &mut AB) {
            let main = builder.main();
            let main_local = main.current_slice();
            let preprocessed = builder.preprocessed().clone();
            let preprocessed_local = preprocessed.current_slice();
            let preprocessed_next = preprocessed.next_slice();
            for (i, c) in main_local.iter().enumerate() {
                let a = preprocessed_local[2 * i];
                let b = preprocessed_local[2 * i + 1];
                builder.assert_zero(a.into().exp_u64(self.degree - 1) * b - *c);
                builder.when_first_row().assert_eq(a * a + AB::Expr::ONE, b);
                let next_a = preprocessed_next[2 * i];
                builder
                    .when_transition()
                    .assert_eq(a + AB::Expr::from_u8(REPETITIONS as u8), next_a);
            }
        }
    }

    /// `a + b = c`, no preprocessed columns, no next-row access.
    #[derive(Clone, Copy)]
    pub struct AddAir {
        pub rows: usize,
    }
    impl AddAir {
        pub fn trace<Val: Field>(&self) -> RowMajorMatrix<Val> {
            let mut v = Val::zero_vec(self.rows * 3);
            for r in 0..self.rows {
                v[3 * r] = Val::from_usize(r);
                v[3 * r + 1] = Val::from_usize(r + 1);
                v[3 * r + 2] = Val::from_usize(2 * r + 1);
            }
            RowMajorMatrix::new(v, 3)
        }
    }
    impl<Val: Field> BaseAir<Val> for AddAir {
        fn width(&self) -> usize {
            3
        }
    }
    impl<AB: AirBuilder> Air<AB> for AddAir
    where
        AB::F: Field,
    {
        fn eval(&self, builder: &mut AB) {
            let main = builder.main();
            let l = main.current_slice();
            builder.assert_zero(l[0] + l[1] - l[2]);
        }
    }

    /// `a - constant = result` with a one-column preprocessed trace.
    #[derive(Clone, Copy)]
    pub struct SubAir {
        pub rows: usize,
    }
    impl SubAir {
        pub fn traces<Val: Field>(&self) -> (RowMajorMatrix<Val>, RowMajorMatrix<Val>) {
            let mut main = Val::zero_vec(self.rows * 2);
            let mut prep = Val::zero_vec(self.rows);
            for r in 0..self.rows {
                let a = Val::from_usize(r + 10);
                let c = Val::from_usize(5);
                main[2 * r] = a;
                main[2 * r + 1] = a - c;
                prep[r] = c;
            }
            (RowMajorMatrix::new(main, 2), RowMajorMatrix::new(prep, 1))
        }
    }
    impl<Val: Field> BaseAir<Val> for SubAir {
        fn width(&self) -> usize {
            2
        }
        fn preprocessed_width(&self) -> usize {
            1
        }
        fn preprocessed_trace(&self) -> Option<RowMajorMatrix<Val>> {
            Some(self.traces().1)
        }
    }
    impl<AB: AirBuilder> Air<AB> for SubAir
    where
        AB::F: Field,
    {
        fn eval(&self, builder: &mut AB) {
            let main = builder.main();
            let l = main.current_slice();
            let prep = builder.preprocessed().clone();
            let p = prep.current_slice();
            builder.assert_zero(l[0] - p[0] - l[1]);
        }
    }

    /// `pis[0] == row[0]` on the first row.
    #[derive(Clone, Copy)]
    pub struct PubAir {
        pub rows: usize,
    }
    impl PubAir {
        pub fn trace<Val: Field>(&self) -> (RowMajorMatrix<Val>, Vec<Val>) {
            let mut v = Val::zero_vec(self.rows * 2);
            for r in 0..self.rows {
                v[2 * r] = Val::from_usize(r + 42);
                v[2 * r + 1] = Val::from_usize(r + 1);
            }
            let pv = v[0];
            (RowMajorMatrix::new(v, 2), vec![pv])
        }
    }
    impl<Val: Field> BaseAir<Val> for PubAir {
        fn width(&self) -> usize {
            2
        }
        fn num_public_values(&self) -> usize {
            1
        }
    }
    impl<AB: AirBuilder> Air<AB> for PubAir
    where
        AB::F: Field,
    {
        fn eval(&self, builder: &mut AB) {
            let main = builder.main();
            let l = main.current_slice();
            let pis = builder.public_values();
            let pi0 = pis[0];
            builder.when_first_row().assert_eq(l[0], pi0);
        }
    }

    #[derive(Clone, Copy)]
    pub enum MixedAir {
        Mul(MulAir),
        Add(AddAir),
        Sub(SubAir),
        Pub(PubAir),
    }

    impl<Val: Field> BaseAir<Val> for MixedAir {
        fn width(&self) -> usize {
            match self {
                Self::Mul(a) => BaseAir::<Val>::width(a),
                Self::Add(a) => BaseAir::<Val>::width(a),
                Self::Sub(a) => BaseAir::<Val>::width(a),
                Self::Pub(a) => BaseAir::<Val>::width(a),
            }
        }
        fn preprocessed_width(&self) -> usize {
            match self {
                Self::Mul(a) => BaseAir::<Val>::preprocessed_width(a),
                Self::Add(a) => BaseAir::<Val>::preprocessed_width(a),
                Self::Sub(a) => BaseAir::<Val>::preprocessed_width(a),
                Self::Pub(a) => BaseAir::<Val>::preprocessed_width(a),
            }
        }
        fn preprocessed_trace(&self) -> Option<RowMajorMatrix<Val>> {
            match self {
                Self::Mul(a) => BaseAir::<Val>::preprocessed_trace(a),
                Self::Add(a) => BaseAir::<Val>::preprocessed_trace(a),
                Self::Sub(a) => BaseAir::<Val>::preprocessed_trace(a),
                Self::Pub(a) => BaseAir::<Val>::preprocessed_trace(a),
            }
        }
        fn num_public_values(&self) -> usize {
            match self {
                Self::Pub(a) => BaseAir::<Val>::num_public_values(a),
                _ => 0,
            }
        }
    }

    impl<AB: AirBuilder> Air<AB> for MixedAir
    where
        AB::F: Field,
    {
        fn eval(&self, builder: &mut AB) {
            match self {
                Self::Mul(a) => Air::<AB>::eval(a, builder),
                Self::Add(a) => Air::<AB>::eval(a, builder),
                Self::Sub(a) => Air::<AB>::eval(a, builder),
                Self::Pub(a) => Air::<AB>::eval(a, builder),
            }
        }
    }
}

// ------------------------------------------------------------------------------------------
// per-field plumbing (macros: the digest / width constants are const generics of the API)
// ------------------------------------------------------------------------------------------

/// Types and helpers shared by every pipeline of one field configuration.  Expects the
/// `p3_test_utils::<field>_params::*` names to be in scope.
macro_rules! field_base {
    (perm = $perm:expr, p2cfg = $p2:expr, setup = $setup:expr) => {

        #[allow(unused_imports)]
        use p3_circuit::ops::{generate_poseidon2_trace, generate_recompose_trace};
        #[allow(unused_imports)]
        use p3_recursion::pcs::fri::{
            FriProofTargets, FriVerifierParams, InputProofTargets, MerkleCapTargets,
            RecExtensionValMmcs, RecValMmcs, Witness,
        };

        pub type RecVal = RecValMmcs<F, DIGEST_ELEMS, MyHash, MyCompress>;
        pub type RecExt = RecExtensionValMmcs<F, Challenge, DIGEST_ELEMS, RecVal>;
        pub type InProof = InputProofTargets<F, Challenge, RecVal>;
        pub type InnerFri = FriProofTargets<F, Challenge, RecExt, InProof, Witness<F>>;
        pub type CapT = MerkleCapTargets<F, DIGEST_ELEMS>;
        pub type Com = <MyPcs as p3_commit::Pcs<Challenge, Challenger>>::Commitment;
        pub const P2CFG: p3_recursion::Poseidon2Config = $p2;

        pub fn the_perm() -> Perm {
            $perm
        }

        pub fn val_mmcs() -> MyMmcs {
            let perm = the_perm();
            MyMmcs::new(MyHash::new(perm.clone()), MyCompress::new(perm), 0)
        }

        pub fn fri_parameters(s: &crate::checks::c15::Scalars) -> FriParameters<ChallengeMmcs> {
            fri_parameters_shaped(s, 1, 2)
        }

        pub fn fri_parameters_shaped(
            s: &crate::checks::c15::Scalars,
            max_log_arity: usize,
            num_queries: usize,
        ) -> FriParameters<ChallengeMmcs> {
            FriParameters {
                log_blowup: s.log_blowup,
                log_final_poly_len: s.log_final_poly_len,
                max_log_arity,
                num_queries,
                commit_proof_of_work_bits: s.commit_pow_bits,
                query_proof_of_work_bits: s.query_pow_bits,
                mmcs: ChallengeMmcs::new(val_mmcs()),
            }
        }

        /// The test configuration of the repository with the four FRI scalars replaced.
        pub fn make_config(s: &crate::checks::c15::Scalars) -> MyConfig {
            make_config_shaped(s, 1, 2)
        }

        pub fn make_config_shaped(
            s: &crate::checks::c15::Scalars,
            max_log_arity: usize,
            num_queries: usize,
        ) -> MyConfig {
            let pcs = MyPcs::new(
                Dft::default(),
                val_mmcs(),
                fri_parameters_shaped(s, max_log_arity, num_queries),
            );
            MyConfig::new(pcs, Challenger::new(the_perm()))
        }

        pub fn verifier_params(s: &crate::checks::c15::Scalars) -> FriVerifierParams {
            FriVerifierParams::with_mmcs(
                s.log_blowup,
                s.log_final_poly_len,
                s.commit_pow_bits,
                s.query_pow_bits,
                P2CFG,
            )
        }

        pub fn new_builder() -> p3_circuit::CircuitBuilder<Challenge> {
            let mut cb = p3_circuit::CircuitBuilder::<Challenge>::new();
            let setup: fn(&mut p3_circuit::CircuitBuilder<Challenge>) = $setup;
            setup(&mut cb);
            cb
        }
    };
}

/// A uni-STARK configuration: `honest()` builds the bundle, `eval()` runs native + pipeline.
macro_rules! uni_config {
    ($modname:ident, air = $air_ty:ty, mk_air = $mk_air:expr, trace = $trace:expr, pis = $pis:expr) => {
        uni_config!(
            $modname,
            air = $air_ty,
            mk_air = $mk_air,
            trace = $trace,
            pis = $pis,
            fri_shape = (1, 2, 0)
        );
    };
    (
        $modname:ident,
        air = $air_ty:ty,
        mk_air = $mk_air:expr,
        trace = $trace:expr,
        pis = $pis:expr,
        fri_shape = ($mla:expr, $nq:expr, $lfpl:expr)
    ) => {
        pub mod $modname {
            use super::*;
            use p3_recursion::public_inputs::StarkVerifierInputsBuilder;
            use p3_uni_stark::{
                PreprocessedVerifierKey, Proof, prove_with_preprocessed, setup_preprocessed,
                verify_with_preprocessed,
            };

            #[derive(serde::Serialize, serde::Deserialize)]
            pub struct Bundle {
                pub proof: Proof<MyConfig>,
                pub prep_commit: Option<Com>,
                pub params: crate::checks::c15::Scalars,
                pub pis: Vec<F>,
                pub aux: crate::checks::c15::Aux,
            }

            pub fn honest() -> serde_json::Value {
                let mut s = crate::checks::c15::Scalars::testing();
                s.log_final_poly_len = $lfpl;
                let config = make_config_shaped(&s, $mla, $nq);
                let air: $air_ty = $mk_air;
                let trace: p3_matrix::dense::RowMajorMatrix<F> = $trace;
                let pis: Vec<F> = $pis;
                let db = p3_util::log2_ceil_usize(p3_matrix::Matrix::height(&trace));
                let (pd, vk) = setup_preprocessed(&config, &air, db).unzip();
                let proof = prove_with_preprocessed(&config, &air, trace, &pis, pd.as_ref());
                let b = Bundle {
                    aux: crate::checks::c15::Aux {
                        vk_degree_bits: proof.degree_bits,
                        max_log_arity: $mla,
                        num_queries: $nq,
                    },
                    proof,
                    prep_commit: vk.map(|v: PreprocessedVerifierKey<MyConfig>| v.commitment),
                    params: s,
                    pis,
                };
                serde_json::to_value(&b).unwrap()
            }

            pub fn deser_ok(v: &serde_json::Value) -> bool {
                matches!(crate::fw::catch(|| serde_json::from_value::<Bundle>(v.clone())), Ok(Ok(_)))
            }

            pub fn eval(v: &serde_json::Value) -> Result<crate::checks::c15::Eval, String> {
                use crate::checks::c15::{guarded_native, guarded_pipe, rej_other, rej_verr, stage};
                let b: Bundle = match crate::fw::catch(|| serde_json::from_value::<Bundle>(v.clone())) {
                    Ok(Ok(b)) => b,
                    Ok(Err(e)) => return Err(e.to_string()),
                    Err(p) => return Err(format!("deserialiser panicked: {p}")),
                };
                let air: $air_ty = $mk_air;
                let native = guarded_native(|| {
                    let config = make_config_shaped(&b.params, b.aux.max_log_arity, b.aux.num_queries);
                    let vk = b.prep_commit.clone().map(|c| PreprocessedVerifierKey::<MyConfig> {
                        width: <$air_ty as p3_air::BaseAir<F>>::preprocessed_width(&air),
                        degree_bits: b.aux.vk_degree_bits,
                        commitment: c,
                    });
                    verify_with_preprocessed(&config, &air, &b.proof, &b.pis, vk.as_ref())
                });
                let pipe = guarded_pipe(|| {
                    let config = make_config_shaped(&b.params, b.aux.max_log_arity, b.aux.num_queries);
                    let fri = verifier_params(&b.params);
                    let mut cb = new_builder();
                    stage("alloc");
                    let vi = StarkVerifierInputsBuilder::<MyConfig, CapT, InnerFri>::allocate(
                        &mut cb,
                        &b.proof,
                        b.prep_commit.as_ref(),
                        b.pis.len(),
                    );
                    stage("verify_circuit");
                    let ids = p3_recursion::verify_p3_uni_proof_circuit::<
                        $air_ty,
                        MyConfig,
                        CapT,
                        InProof,
                        InnerFri,
                        _,
                        WIDTH,
                        RATE,
                    >(
                        &config,
                        &air,
                        &mut cb,
                        &vi.proof_targets,
                        &vi.air_public_targets,
                        &vi.preprocessed_commit,
                        &fri,
                        P2CFG,
                    )
                    .map_err(rej_verr("verify_circuit"))?;
                    stage("builder.build");
                    let circuit = cb.build().map_err(rej_other("builder.build", "CircuitBuilderError"))?;
                    stage("pack");
                    let (pubs, privs) = vi.pack_values(&b.pis, &b.proof, &b.prep_commit);
                    let mut runner = circuit.runner();
                    stage("set_public");
                    runner
                        .set_public_inputs(&pubs)
                        .map_err(rej_other("set_public", "CircuitError"))?;
                    stage("set_private");
                    runner
                        .set_private_inputs(&privs)
                        .map_err(rej_other("set_private", "CircuitError"))?;
                    stage("mmcs_private_data");
                    p3_recursion::pcs::set_fri_mmcs_private_data::<
                        F,
                        Challenge,
                        ChallengeMmcs,
                        MyMmcs,
                        MyHash,
                        MyCompress,
                        DIGEST_ELEMS,
                    >(&mut runner, &ids, &b.proof.opening_proof, P2CFG)
                    .map_err(rej_other("mmcs_private_data", "str"))?;
                    stage("run");
                    runner.run().map_err(rej_other("run", "CircuitError"))?;
                    Ok(())
                });
                Ok(crate::checks::c15::Eval { native, pipe })
            }
        }
    };
}

/// Serialisable mirror of `p3_batch_stark::CommonData` (which derives nothing).
#[derive(Clone, Serialize, Deserialize)]
pub struct MetaMirror {
    pub matrix_index: usize,
    pub width: usize,
    pub degree_bits: usize,
}

#[derive(Clone, Serialize, Deserialize)]
#[serde(bound(serialize = "C: Serialize", deserialize = "C: Deserialize<'de>"))]
pub struct PrepMirror<C> {
    pub commitment: C,
    pub instances: Vec<Option<MetaMirror>>,
    pub matrix_to_instance: Vec<usize>,
}

/// `lookups[i] = Some(j)` stands for a clone of the honest `Lookups` of instance `j`, `None` for
/// an empty `Lookups` (`p3_lookup::Lookups` is an opaque newtype around symbolic expressions:
/// only the outer list structure and the assignment to instances can be altered).
#[derive(Clone, Serialize, Deserialize)]
#[serde(bound(serialize = "C: Serialize", deserialize = "C: Deserialize<'de>"))]
pub struct CommonMirror<C> {
    pub preprocessed: Option<PrepMirror<C>>,
    pub lookups: Vec<Option<usize>>,
}

macro_rules! common_mirror_fns {
    ($sc:ty) => {
        pub fn mirror_of(
            c: &p3_batch_stark::CommonData<$sc>,
        ) -> crate::checks::c15::CommonMirror<Com> {
            crate::checks::c15::CommonMirror {
                preprocessed: c.preprocessed.as_ref().map(|g| crate::checks::c15::PrepMirror {
                    commitment: g.commitment.clone(),
                    instances: g
                        .instances
                        .iter()
                        .map(|m| {
                            m.as_ref().map(|m| crate::checks::c15::MetaMirror {
                                matrix_index: m.matrix_index,
                                width: m.width,
                                degree_bits: m.degree_bits,
                            })
                        })
                        .collect(),
                    matrix_to_instance: g.matrix_to_instance.clone(),
                }),
                lookups: c
                    .lookups
                    .iter()
                    .enumerate()
                    .map(|(i, l)| if l.is_empty() { None } else { Some(i) })
                    .collect(),
            }
        }

        pub fn common_of(
            m: &crate::checks::c15::CommonMirror<Com>,
            honest_lookups: &[p3_lookup::Lookups<F>],
        ) -> p3_batch_stark::CommonData<$sc> {
            p3_batch_stark::CommonData::new(
                m.preprocessed.as_ref().map(|g| p3_batch_stark::common::GlobalPreprocessed {
                    commitment: g.commitment.clone(),
                    instances: g
                        .instances
                        .iter()
                        .map(|m| {
                            m.as_ref().map(|m| p3_batch_stark::common::PreprocessedInstanceMeta {
                                matrix_index: m.matrix_index,
                                width: m.width,
                                degree_bits: m.degree_bits,
                            })
                        })
                        .collect(),
                    matrix_to_instance: g.matrix_to_instance.clone(),
                }),
                m.lookups
                    .iter()
                    .map(|r| r.and_then(|i| honest_lookups.get(i).cloned()).unwrap_or_default())
                    .collect(),
            )
        }
    };
}

/// A batch-STARK configuration over explicit AIRs (`verify_batch_circuit`).
macro_rules! batch_config {
    (
        $modname:ident,
        sc = $sc:ty,
        inner = $inner:ty,
        air = $air_ty:ty,
        airs = $airs:expr,
        traces_pis = $traces_pis:expr,
        config = $mkcfg:path,
        fri_proof = |$pr:ident| $fri_proof:expr
    ) => {
        pub mod $modname {
            use super::*;
            use p3_batch_stark::{BatchProof, ProverData, StarkInstance, prove_batch, verify_batch};
            use p3_lookup::logup::LogUpGadget;
            use p3_recursion::BatchStarkVerifierInputsBuilder;

            common_mirror_fns!($sc);

            #[derive(serde::Serialize, serde::Deserialize)]
            pub struct Bundle {
                pub proof: BatchProof<$sc>,
                pub common: crate::checks::c15::CommonMirror<Com>,
                pub params: crate::checks::c15::Scalars,
                pub pis: Vec<Vec<F>>,
            }

            static LOOKUPS: std::sync::OnceLock<Vec<p3_lookup::Lookups<F>>> = std::sync::OnceLock::new();

            pub fn honest() -> serde_json::Value {
                let s = crate::checks::c15::Scalars::testing();
                let config = $mkcfg(&s);
                let airs: Vec<$air_ty> = $airs;
                let (traces, pis): (Vec<p3_matrix::dense::RowMajorMatrix<F>>, Vec<Vec<F>>) = $traces_pis;
                let instances: Vec<StarkInstance<'_, $sc, $air_ty>> = airs
                    .iter()
                    .zip(traces.iter())
                    .zip(pis.iter())
                    .map(|((air, trace), pv)| StarkInstance {
                        air,
                        trace,
                        public_values: pv.clone(),
                    })
                    .collect();
                let pd = ProverData::from_instances(&config, &instances);
                let proof = prove_batch(&config, &instances, &pd);
                let _ = LOOKUPS.set(pd.common.lookups.clone());
                let b = Bundle {
                    proof,
                    common: mirror_of(&pd.common),
                    params: s,
                    pis,
                };
                serde_json::to_value(&b).unwrap()
            }

            pub fn deser_ok(v: &serde_json::Value) -> bool {
                matches!(crate::fw::catch(|| serde_json::from_value::<Bundle>(v.clone())), Ok(Ok(_)))
            }

            pub fn eval(v: &serde_json::Value) -> Result<crate::checks::c15::Eval, String> {
                use crate::checks::c15::{guarded_native, guarded_pipe, rej_other, rej_verr, stage};
                let b: Bundle = match crate::fw::catch(|| serde_json::from_value::<Bundle>(v.clone())) {
                    Ok(Ok(b)) => b,
                    Ok(Err(e)) => return Err(e.to_string()),
                    Err(p) => return Err(format!("deserialiser panicked: {p}")),
                };
                let airs: Vec<$air_ty> = $airs;
                let honest_lookups = LOOKUPS.get().expect("honest() ran first");
                let common = common_of(&b.common, honest_lookups);
                let native = guarded_native(|| {
                    let config = $mkcfg(&b.params);
                    verify_batch(&config, &airs, &b.proof, &b.pis, &common)
                });
                let pipe = guarded_pipe(|| {
                    let config = $mkcfg(&b.params);
                    let fri = verifier_params(&b.params);
                    let lg = LogUpGadget::new();
                    let mut cb = new_builder();
                    stage("alloc");
                    // one public-value count per AIR instance the verifier expects (its own
                    // public values); `allocate` documents a panic when the proof carries a
                    // different number of instances
                    let counts: Vec<usize> = b.pis.iter().map(|p| p.len()).collect();
                    let vi = BatchStarkVerifierInputsBuilder::<$sc, CapT, $inner>::allocate(
                        &mut cb, &b.proof, &common, &counts,
                    );
                    stage("verify_circuit");
                    let ids = p3_recursion::verify_batch_circuit::<_, _, _, InProof, _, _, _, WIDTH, RATE>(
                        &config,
                        &airs,
                        &mut cb,
                        &vi.proof_targets,
                        &vi.air_public_targets,
                        &fri,
                        &vi.common_data,
                        &lg,
                        P2CFG,
                    )
                    .map_err(rej_verr("verify_circuit"))?;
                    stage("builder.build");
                    let circuit = cb.build().map_err(rej_other("builder.build", "CircuitBuilderError"))?;
                    stage("pack");
                    let (pubs, privs) = vi.pack_values(&b.pis, &b.proof, &common);
                    let mut runner = circuit.runner();
                    stage("set_public");
                    runner
                        .set_public_inputs(&pubs)
                        .map_err(rej_other("set_public", "CircuitError"))?;
                    stage("set_private");
                    runner
                        .set_private_inputs(&privs)
                        .map_err(rej_other("set_private", "CircuitError"))?;
                    stage("mmcs_private_data");
                    let $pr = &b.proof;
                    p3_recursion::pcs::set_fri_mmcs_private_data::<
                        F,
                        Challenge,
                        ChallengeMmcs,
                        MyMmcs,
                        MyHash,
                        MyCompress,
                        DIGEST_ELEMS,
                    >(&mut runner, &ids, $fri_proof, P2CFG)
                    .map_err(rej_other("mmcs_private_data", "str"))?;
                    stage("run");
                    runner.run().map_err(rej_other("run", "CircuitError"))?;
                    Ok(())
                });
                Ok(crate::checks::c15::Eval { native, pipe })
            }
        }
    };
}

/// A circuit-prover configuration: a `BatchStarkProof` of a small circuit, verified through
/// `verify_p3_batch_proof_circuit` (AIRs rebuilt from the proof's own metadata).
macro_rules! prover_config {
    (
        $modname:ident,
        trace_d = $trace_d:expr,
        native_ef = $native_ef:ty,
        prove = $prove:expr,
        native_prover = |$ncfg:ident| $native_prover:expr,
        providers = $providers:expr
    ) => {
        pub mod $modname {
            use super::*;
            use p3_circuit_prover::{BatchStarkProof, BatchStarkProver};
            use p3_lookup::logup::LogUpGadget;

            common_mirror_fns!(MyConfig);
            pub const TRACE_D: usize = $trace_d;

            #[derive(serde::Serialize, serde::Deserialize)]
            pub struct Bundle {
                /// `stark_common` (the preprocessed binding) is part of the serialised proof
                pub bsp: BatchStarkProof<MyConfig>,
                /// the lookup contexts are not serialised with the proof; mirror of the list structure
                pub lookups: Vec<Option<usize>>,
                pub params: crate::checks::c15::Scalars,
            }

            static LOOKUPS: std::sync::OnceLock<Vec<p3_lookup::Lookups<F>>> = std::sync::OnceLock::new();

            pub fn honest() -> serde_json::Value {
                let s = crate::checks::c15::Scalars::testing();
                let prove: fn(&crate::checks::c15::Scalars) -> BatchStarkProof<MyConfig> = $prove;
                let bsp = prove(&s);
                let _ = LOOKUPS.set(bsp.stark_common.lookups.clone());
                let lookups = mirror_of(&bsp.stark_common).lookups;
                let b = Bundle { bsp, lookups, params: s };
                serde_json::to_value(&b).unwrap()
            }

            pub fn deser_ok(v: &serde_json::Value) -> bool {
                matches!(crate::fw::catch(|| serde_json::from_value::<Bundle>(v.clone())), Ok(Ok(_)))
            }

            pub fn eval(v: &serde_json::Value) -> Result<crate::checks::c15::Eval, String> {
                use crate::checks::c15::{guarded_native, guarded_pipe, rej_other, rej_verr, stage};
                let b: Bundle = match crate::fw::catch(|| serde_json::from_value::<Bundle>(v.clone())) {
                    Ok(Ok(b)) => b,
                    Ok(Err(e)) => return Err(e.to_string()),
                    Err(p) => return Err(format!("deserialiser panicked: {p}")),
                };
                let honest_lookups = LOOKUPS.get().expect("honest() ran first");
                let native = guarded_native(|| {
                    let $ncfg = make_config(&b.params);
                    let prover: BatchStarkProver<MyConfig> = $native_prover;
                    prover.verify_all_tables::<$native_ef>(&b.bsp)
                });
                let pipe = guarded_pipe(|| {
                    let config = make_config(&b.params);
                    let fri = verifier_params(&b.params);
                    let lg = LogUpGadget::new();
                    let mut mirror = mirror_of(&b.bsp.stark_common);
                    mirror.lookups = b.lookups.clone();
                    let common = common_of(&mirror, honest_lookups);
                    let providers: Vec<Box<dyn p3_circuit_prover::TableProver<MyConfig>>> = $providers;
                    let mut cb = new_builder();
                    stage("verify_circuit");
                    let (vi, ids) = p3_recursion::verifier::verify_p3_batch_proof_circuit::<
                        MyConfig,
                        CapT,
                        InProof,
                        InnerFri,
                        LogUpGadget,
                        _,
                        WIDTH,
                        RATE,
                        TRACE_D,
                    >(&config, &mut cb, &b.bsp, &fri, &common, &lg, P2CFG, &providers)
                    .map_err(rej_verr("verify_circuit"))?;
                    stage("builder.build");
                    let circuit = cb.build().map_err(rej_other("builder.build", "CircuitBuilderError"))?;
                    stage("pack");
                    let mut pis: Vec<Vec<F>> = vec![vec![]; 3];
                    for e in &b.bsp.non_primitives {
                        pis.push(e.public_values.clone());
                    }
                    let (pubs, privs) = vi.pack_values(&pis, &b.bsp.proof, &common);
                    let mut runner = circuit.runner();
                    stage("set_public");
                    runner
                        .set_public_inputs(&pubs)
                        .map_err(rej_other("set_public", "CircuitError"))?;
                    stage("set_private");
                    runner
                        .set_private_inputs(&privs)
                        .map_err(rej_other("set_private", "CircuitError"))?;
                    stage("mmcs_private_data");
                    p3_recursion::pcs::set_fri_mmcs_private_data::<
                        F,
                        Challenge,
                        ChallengeMmcs,
                        MyMmcs,
                        MyHash,
                        MyCompress,
                        DIGEST_ELEMS,
                    >(&mut runner, &ids, &b.bsp.proof.opening_proof, P2CFG)
                    .map_err(rej_other("mmcs_private_data", "str"))?;
                    stage("run");
                    runner.run().map_err(rej_other("run", "CircuitError"))?;
                    Ok(())
                });
                Ok(crate::checks::c15::Eval { native, pipe })
            }
        }
    };
}

#[allow(dead_code)] // not every field module instantiates every pipeline
pub mod bb {
    use p3_field::PrimeCharacteristicRing;
    use p3_test_utils::baby_bear_params::*;

    use crate::checks::c15::airs::{AddAir, MixedAir, MulAir, PubAir, SubAir};

    field_base!(
        perm = default_babybear_poseidon2_16(),
        p2cfg = p3_recursion::Poseidon2Config::BABY_BEAR_D4_W16,
        setup = |cb| {
            cb.enable_poseidon2_perm::<p3_poseidon2_circuit_air::BabyBearD4Width16, _>(
                generate_poseidon2_trace::<Challenge, p3_poseidon2_circuit_air::BabyBearD4Width16>,
                the_perm(),
            );
            cb.enable_recompose::<F>(generate_recompose_trace::<F, Challenge>);
        }
    );

    uni_config!(
        fib,
        air = p3_circuit::test_utils::FibonacciAir,
        mk_air = p3_circuit::test_utils::FibonacciAir {},
        trace = p3_circuit::test_utils::generate_trace_rows::<F>(0, 1, 8),
        pis = vec![F::ZERO, F::ONE, F::from_u64(21)]
    );

    uni_config!(
        mul,
        air = MulAir,
        mk_air = MulAir { degree: 2, rows: 8 },
        trace = MulAir { degree: 2, rows: 8 }.traces::<F>().0,
        pis = vec![]
    );

    // recursion/tests/test_lookups.rs::test_poseidon2_ctl_lookups: a D=4 circuit with two chained
    // Poseidon2 permutations, proven with the Poseidon2 and recompose non-primitive tables
    fn prove_p2(s: &crate::checks::c15::Scalars) -> p3_circuit_prover::BatchStarkProof<MyConfig> {
        use p3_batch_stark::ProverData;
        use p3_circuit::ops::Poseidon2PermCall;
        use p3_circuit_prover::batch_stark_prover::{poseidon2_air_builders, recompose_air_builders};
        use p3_circuit_prover::common::{NpoPreprocessor, get_airs_and_degrees_with_prep};
        use p3_circuit_prover::{
            BatchStarkProver, CircuitProverData, ConstraintProfile, Poseidon2Preprocessor,
            RecomposePreprocessor, TablePacking,
        };
        let mut builder = new_builder();
        let input0 = builder.public_input();
        let input1 = builder.public_input();
        let (_id, outputs) = builder
            .add_poseidon2_perm(&Poseidon2PermCall {
                config: P2CFG,
                new_start: true,
                merkle_path: false,
                mmcs_bit: None,
                mmcs_bit2: None,
                inputs: vec![Some(input0), Some(input1), None, None],
                out_ctl: vec![true, true],
                return_all_outputs: false,
                mmcs_index_sum: None,
            })
            .unwrap();
        let (o0, o1) = (outputs[0].unwrap(), outputs[1].unwrap());
        builder
            .add_poseidon2_perm(&Poseidon2PermCall {
                config: P2CFG,
                new_start: true,
                merkle_path: false,
                mmcs_bit: None,
                mmcs_bit2: None,
                inputs: vec![Some(o0), Some(o1), None, None],
                out_ctl: vec![false, false],
                return_all_outputs: false,
                mmcs_index_sum: None,
            })
            .unwrap();
        let packing = TablePacking::new(1, 4);
        let config = make_config(s);
        let circuit = builder.build().unwrap();
        let npo_prep: Vec<Box<dyn NpoPreprocessor<F>>> =
            vec![Box::new(Poseidon2Preprocessor), Box::new(RecomposePreprocessor::default())];
        let mut air_builders = poseidon2_air_builders::<_, 4>();
        air_builders.extend(recompose_air_builders(1, false));
        let (airs_degrees, prim, nonprim) = get_airs_and_degrees_with_prep::<MyConfig, Challenge, 4>(
            &circuit,
            &packing,
            &npo_prep,
            &air_builders,
            ConstraintProfile::Standard,
        )
        .unwrap();
        let (airs, degrees): (Vec<_>, Vec<usize>) = airs_degrees.into_iter().unzip();
        let mut runner = circuit.runner();
        runner
            .set_public_inputs(&[Challenge::from_u32(12345), Challenge::from_u32(67890)])
            .unwrap();
        let traces = runner.run().unwrap();
        let pd = ProverData::from_airs_and_degrees(&config, &airs, &degrees);
        let cpd = CircuitProverData::new(pd, prim, nonprim);
        let mut prover = BatchStarkProver::new(config).with_table_packing(packing);
        prover.register_poseidon2_table::<4>(P2CFG);
        prover.register_recompose_table::<4>(false);
        prover.prove_all_tables(&traces, &cpd).unwrap()
    }

    prover_config!(
        cp_p2,
        trace_d = 4,
        native_ef = Challenge,
        prove = prove_p2,
        native_prover = |cfg| {
            let mut p = BatchStarkProver::new(cfg).with_table_packing(p3_circuit_prover::TablePacking::new(1, 4));
            p.register_poseidon2_table::<4>(P2CFG);
            p.register_recompose_table::<4>(false);
            p
        },
        // the circuit has no recompose operation, so the proof carries the Poseidon2 table only
        providers = vec![Box::new(p3_circuit_prover::Poseidon2Prover::new(
            P2CFG,
            p3_circuit_prover::ConstraintProfile::Standard,
        ))]
    );

    batch_config!(
        mixed,
        sc = MyConfig,
        inner = InnerFri,
        air = MixedAir,
        airs = vec![
            MixedAir::Mul(MulAir { degree: 2, rows: 8 }),
            MixedAir::Add(AddAir { rows: 16 }),
            MixedAir::Sub(SubAir { rows: 8 }),
            MixedAir::Pub(PubAir { rows: 4 }),
        ],
        traces_pis = {
            let (pt, pv) = PubAir { rows: 4 }.trace::<F>();
            (
                vec![
                    MulAir { degree: 2, rows: 8 }.traces::<F>().0,
                    AddAir { rows: 16 }.trace::<F>(),
                    SubAir { rows: 8 }.traces::<F>().0,
                    pt,
                ],
                vec![vec![], vec![], vec![], pv],
            )
        },
        config = make_config,
        fri_proof = |p| &p.opening_proof
    );
}

#[allow(dead_code)] // not every field module instantiates every pipeline
pub mod kq {
    use p3_field::PrimeCharacteristicRing;
    use p3_test_utils::koala_bear_quintic_params::*;

    field_base!(
        perm = default_koalabear_poseidon2_16(),
        p2cfg = p3_recursion::Poseidon2Config::KOALA_BEAR_D1_W16,
        setup = |cb| {
            let lift = LiftKoalaPermForQuintic::new(default_koalabear_poseidon2_16());
            cb.enable_poseidon2_perm_base::<p3_circuit::ops::KoalaBearD1Width16, _>(
                generate_poseidon2_trace::<Challenge, p3_circuit::ops::KoalaBearD1Width16>,
                lift,
            );
            cb.enable_recompose::<F>(generate_recompose_trace::<F, Challenge>);
            cb.set_recompose_coeff_ctl_for_decompose_links(true);
        }
    );

    // recursion/tests/fibonacci_batch_stark_prover_quintic.rs
    fn prove_fib(s: &crate::checks::c15::Scalars) -> p3_circuit_prover::BatchStarkProof<MyConfig> {
        use p3_batch_stark::ProverData;
        use p3_circuit_prover::common::get_airs_and_degrees_with_prep;
        use p3_circuit_prover::{BatchStarkProver, CircuitProverData, ConstraintProfile, TablePacking};
        let n = 48usize;
        let mut builder = p3_circuit::CircuitBuilder::<Challenge>::new();
        let expected = builder.public_input();
        let mut a = builder.define_const(Challenge::ZERO);
        let mut b = builder.define_const(Challenge::ONE);
        let (mut fa, mut fb) = (F::ZERO, F::ONE);
        for _ in 2..=n {
            let next = builder.add(a, b);
            a = b;
            b = next;
            let fnext = fa + fb;
            fa = fb;
            fb = fnext;
        }
        builder.connect(b, expected);
        let packing = TablePacking::new(2, 4);
        let config = make_config(s);
        let circuit = builder.build().unwrap();
        let (airs_degrees, prim, nonprim) = get_airs_and_degrees_with_prep::<MyConfig, _, 5>(
            &circuit,
            &packing,
            &[],
            &[],
            ConstraintProfile::Standard,
        )
        .unwrap();
        let (airs, degrees): (Vec<_>, Vec<usize>) = airs_degrees.into_iter().unzip();
        let mut runner = circuit.runner();
        runner.set_public_inputs(&[Challenge::from(fb)]).unwrap();
        let traces = runner.run().unwrap();
        let pd = ProverData::from_airs_and_degrees(&config, &airs, &degrees);
        let cpd = CircuitProverData::new(pd, prim, nonprim);
        let prover = BatchStarkProver::new(config).with_table_packing(packing);
        prover.prove_all_tables(&traces, &cpd).unwrap()
    }

    prover_config!(
        cp_fib,
        trace_d = 5,
        native_ef = Challenge,
        prove = prove_fib,
        native_prover = |cfg| BatchStarkProver::new(cfg)
            .with_table_packing(p3_circuit_prover::TablePacking::new(2, 4)),
        providers = vec![]
    );
}

#[allow(dead_code)] // not every field module instantiates every pipeline
pub mod gl {
    use p3_field::PrimeCharacteristicRing;
    use p3_test_utils::goldilocks_params::*;
    use rand::SeedableRng;

    field_base!(
        perm = Poseidon2Goldilocks::<8>::new_from_rng_128(&mut rand::rngs::SmallRng::seed_from_u64(1)),
        p2cfg = p3_recursion::Poseidon2Config::GOLDILOCKS_D2_W8,
        setup = |cb| {
            cb.enable_poseidon2_perm_width_8::<p3_circuit::ops::GoldilocksD2Width8, _>(
                generate_poseidon2_trace::<Challenge, p3_circuit::ops::GoldilocksD2Width8>,
                the_perm(),
            );
            cb.enable_recompose::<F>(generate_recompose_trace::<F, Challenge>);
        }
    );

    uni_config!(
        fib,
        air = p3_circuit::test_utils::FibonacciAir,
        mk_air = p3_circuit::test_utils::FibonacciAir {},
        trace = p3_circuit::test_utils::generate_trace_rows::<F>(0, 1, 8),
        pis = vec![F::ZERO, F::ONE, F::from_u64(21)]
    );
}

#[allow(dead_code)] // not every field module instantiates every pipeline
pub mod kb {
    use p3_field::PrimeCharacteristicRing;
    use p3_test_utils::koala_bear_params::*;
    use rand::SeedableRng;
    use rand::rngs::SmallRng;

    use crate::checks::c15::airs::AddAir;

    field_base!(
        perm = default_koalabear_poseidon2_16(),
        p2cfg = p3_recursion::Poseidon2Config::KOALA_BEAR_D4_W16,
        setup = |cb| {
            cb.enable_poseidon2_perm::<p3_poseidon2_circuit_air::KoalaBearD4Width16, _>(
                generate_poseidon2_trace::<Challenge, p3_poseidon2_circuit_air::KoalaBearD4Width16>,
                the_perm(),
            );
            cb.enable_recompose::<F>(generate_recompose_trace::<F, Challenge>);
        }
    );

    // a taller trace with higher-arity folding, three queries and a non-constant final polynomial
    uni_config!(
        fib_arity8,
        air = p3_circuit::test_utils::FibonacciAir,
        mk_air = p3_circuit::test_utils::FibonacciAir {},
        trace = p3_circuit::test_utils::generate_trace_rows::<F>(0, 1, 64),
        pis = {
            let (mut a, mut b) = (F::ZERO, F::ONE);
            for _ in 1..64 {
                let n = a + b;
                a = b;
                b = n;
            }
            vec![F::ZERO, F::ONE, b]
        },
        fri_shape = (3, 3, 1)
    );

    // ---- ZK: HidingFriPcs (recursion/tests/fibonacci_batch_stark_prover_zk.rs, zk_aggregation.rs)
    pub type MyPcsZk = p3_fri::HidingFriPcs<F, Dft, MyMmcs, ChallengeMmcs, SmallRng>;
    pub type MyConfigZk = StarkConfig<MyPcsZk, Challenge, Challenger>;
    pub type InnerFriZk = p3_recursion::pcs::fri::HidingFriProofTargets<F, Challenge, RecExt, InProof, Witness<F>>;

    pub fn make_config_zk(s: &crate::checks::c15::Scalars) -> MyConfigZk {
        let pcs = MyPcsZk::new(Dft::default(), val_mmcs(), fri_parameters(s), 2, SmallRng::seed_from_u64(1));
        MyConfigZk::new(pcs, Challenger::new(the_perm()))
    }

    batch_config!(
        zk_add,
        sc = MyConfigZk,
        inner = InnerFriZk,
        air = AddAir,
        airs = vec![AddAir { rows: 64 }],
        traces_pis = (vec![AddAir { rows: 64 }.trace::<F>()], vec![vec![]]),
        config = make_config_zk,
        fri_proof = |p| &p.opening_proof.1
    );

    // ---- circuit prover, base-field traces (recursion/tests/fibonacci_batch_stark_prover.rs)
    fn prove_fib(s: &crate::checks::c15::Scalars) -> p3_circuit_prover::BatchStarkProof<MyConfig> {
        use p3_batch_stark::ProverData;
        use p3_circuit_prover::common::get_airs_and_degrees_with_prep;
        use p3_circuit_prover::{BatchStarkProver, CircuitProverData, ConstraintProfile, TablePacking};
        let n = 100usize;
        let mut builder = p3_circuit::CircuitBuilder::<F>::new();
        let expected = builder.alloc_public_input("expected_result");
        let mut a = builder.alloc_const(F::ZERO, "F(0)");
        let mut b = builder.alloc_const(F::ONE, "F(1)");
        let (mut fa, mut fb) = (F::ZERO, F::ONE);
        for _ in 2..=n {
            let next = builder.add(a, b);
            a = b;
            b = next;
            let fnext = fa + fb;
            fa = fb;
            fb = fnext;
        }
        builder.connect(b, expected);
        let packing = TablePacking::new(2, 4);
        let config = make_config(s);
        let circuit = builder.build().unwrap();
        let (airs_degrees, prim, nonprim) = get_airs_and_degrees_with_prep::<MyConfig, _, 1>(
            &circuit,
            &packing,
            &[],
            &[],
            ConstraintProfile::Standard,
        )
        .unwrap();
        let (airs, degrees): (Vec<_>, Vec<usize>) = airs_degrees.into_iter().unzip();
        let mut runner = circuit.runner();
        runner.set_public_inputs(&[fb]).unwrap();
        let traces = runner.run().unwrap();
        let pd = ProverData::from_airs_and_degrees(&config, &airs, &degrees);
        let cpd = CircuitProverData::new(pd, prim, nonprim);
        let prover = BatchStarkProver::new(config).with_table_packing(packing);
        prover.prove_all_tables(&traces, &cpd).unwrap()
    }

    prover_config!(
        cp_fib,
        trace_d = 1,
        native_ef = F,
        prove = prove_fib,
        native_prover = |cfg| BatchStarkProver::new(cfg)
            .with_table_packing(p3_circuit_prover::TablePacking::new(2, 4)),
        providers = vec![]
    );
}

// ------------------------------------------------------------------------------------------
// configurations
// ------------------------------------------------------------------------------------------

#[derive(Clone, Copy, PartialEq, Eq, Debug)]
pub enum Kind {
    Uni,
    Batch,
    CircuitProver,
}

pub struct Config {
    pub name: &'static str,
    pub kind: Kind,
    honest_fn: fn() -> Value,
    eval_fn: fn(&Value) -> Result<Eval, String>,
    /// does the value deserialise into the bundle type?
    deser_fn: fn(&Value) -> bool,
    honest: OnceLock<Value>,
    schema: OnceLock<Schema>,
}

impl Config {
    const fn new(
        name: &'static str,
        kind: Kind,
        honest_fn: fn() -> Value,
        eval_fn: fn(&Value) -> Result<Eval, String>,
        deser_fn: fn(&Value) -> bool,
    ) -> Self {
        Self {
            name,
            kind,
            honest_fn,
            eval_fn,
            deser_fn,
            honest: OnceLock::new(),
            schema: OnceLock::new(),
        }
    }
    pub fn honest(&self) -> &Value {
        // The honest proof is produced on a one-thread pool: proof-of-work grinding searches with
        // `find_any`, so on several threads the witness -- and with it the transcript and every
        // sampled query index -- differs from run to run.  Outcomes that depend on a sampled index
        // (a copied query proof opening at the index sampled for the extra query) would then
        // differ between two runs of the same seed.
        self.honest.get_or_init(|| match rayon::ThreadPoolBuilder::new().num_threads(1).build() {
            Ok(pool) => pool.install(|| (self.honest_fn)()),
            Err(_) => (self.honest_fn)(),
        })
    }
    pub fn eval(&self, v: &Value) -> Result<Eval, String> {
        (self.eval_fn)(v)
    }
    pub fn schema(&self) -> &Schema {
        self.schema.get_or_init(|| Schema::probe(self))
    }
}

pub fn configs() -> &'static [Config] {
    static C: [Config; 9] = [
        Config::new("uni/fibonacci/babybear-d4", Kind::Uni, bb::fib::honest, bb::fib::eval, bb::fib::deser_ok),
        Config::new("uni/mul-preprocessed/babybear-d4", Kind::Uni, bb::mul::honest, bb::mul::eval, bb::mul::deser_ok),
        Config::new("uni/fibonacci/goldilocks-d2", Kind::Uni, gl::fib::honest, gl::fib::eval, gl::fib::deser_ok),
        Config::new("batch/mixed-preprocessed-public/babybear-d4", Kind::Batch, bb::mixed::honest, bb::mixed::eval, bb::mixed::deser_ok),
        Config::new("batch/zk-hiding-add/koalabear-d4", Kind::Batch, kb::zk_add::honest, kb::zk_add::eval, kb::zk_add::deser_ok),
        Config::new("prover/fibonacci-base-field/koalabear-d4", Kind::CircuitProver, kb::cp_fib::honest, kb::cp_fib::eval, kb::cp_fib::deser_ok),
        Config::new("prover/fibonacci/koalabear-quintic-d5", Kind::CircuitProver, kq::cp_fib::honest, kq::cp_fib::eval, kq::cp_fib::deser_ok),
        Config::new("prover/poseidon2-tables/babybear-d4", Kind::CircuitProver, bb::cp_p2::honest, bb::cp_p2::eval, bb::cp_p2::deser_ok),
        // new configurations are appended (stored cases address configurations by index)
        Config::new("uni/fibonacci-arity8-3queries-finalpoly2/koalabear-d4", Kind::Uni, kb::fib_arity8::honest, kb::fib_arity8::eval, kb::fib_arity8::deser_ok),
    ];
    &C
}

// ------------------------------------------------------------------------------------------
// schema discovery and mutation
// ------------------------------------------------------------------------------------------

pub struct Schema {
    /// classes of variable-length arrays (a one-shorter array still deserialises)
    pub var_arrays: BTreeSet<String>,
    /// classes of numeric leaves that are machine integers (counts, degrees, indices), with
    /// the largest value their type holds
    pub counts: BTreeMap<String, u64>,
    /// classes of nodes that are `Option`s (null <-> value both deserialise)
    pub options: BTreeSet<String>,
    /// numeric leaf classes that are NOT counts (field elements, digest words) — evidence
    pub value_leaves: BTreeSet<String>,
    /// array classes that are fixed-size (extension-field coefficients, digests, ...)
    pub fixed_arrays: BTreeSet<String>,
}

fn all_nodes(v: &Value) -> Vec<Path> {
    fn go(v: &Value, cur: &mut Path, out: &mut Vec<Path>) {
        out.push(cur.clone());
        match v {
            Value::Object(m) => {
                for (k, x) in m {
                    cur.push(PathSeg::Key(k.clone()));
                    go(x, cur, out);
                    cur.pop();
                }
            }
            Value::Array(a) => {
                for (i, x) in a.iter().enumerate() {
                    cur.push(PathSeg::Idx(i));
                    go(x, cur, out);
                    cur.pop();
                }
            }
            _ => {}
        }
    }
    let mut out = vec![];
    go(v, &mut vec![], &mut out);
    out
}

fn is_aux(p: &Path) -> bool {
    matches!(p.first(), Some(PathSeg::Key(k)) if k == "aux")
}

pub fn parse_path(s: &str) -> Path {
    let mut out = vec![];
    let mut cur = String::new();
    let mut chars = s.chars().peekable();
    while let Some(c) = chars.next() {
        match c {
            '.' => {
                if !cur.is_empty() {
                    out.push(PathSeg::Key(std::mem::take(&mut cur)));
                }
            }
            '[' => {
                if !cur.is_empty() {
                    out.push(PathSeg::Key(std::mem::take(&mut cur)));
                }
                let mut n = String::new();
                for d in chars.by_ref() {
                    if d == ']' {
                        break;
                    }
                    n.push(d);
                }
                out.push(PathSeg::Idx(n.parse().unwrap_or(0)));
            }
            c => cur.push(c),
        }
    }
    if !cur.is_empty() {
        out.push(PathSeg::Key(cur));
    }
    out
}

/// Template for `None -> Some(..)`: (class suffix of the option, path of the value to copy).
fn option_template(root: &Value, path: &Path) -> Option<Value> {
    let cls = jsonmut::class_of(path);
    let sibling = |key: &str| -> Option<Value> {
        let mut p = path.clone();
        p.pop();
        p.push(PathSeg::Key(key.to_string()));
        jsonmut::get(root, &p).filter(|v| !v.is_null()).cloned()
    };
    let last = match path.last() {
        Some(PathSeg::Key(k)) => k.as_str(),
        _ => "",
    };
    match last {
        // commitments
        "random" if cls.contains("commitments") => sibling("trace").or_else(|| sibling("main")),
        "permutation" => sibling("main"),
        // opened values
        "random" => sibling("trace_local"),
        "preprocessed_local" | "preprocessed_next" | "trace_next" => sibling("trace_local"),
        "prep_commit" => jsonmut::get(root, &parse_path("proof.commitments.trace")).cloned(),
        _ => {
            // list entries (`lookup_terminals[]`, `instances[]`): copy a non-null sibling entry
            if let Some(PathSeg::Idx(_)) = path.last() {
                let mut p = path.clone();
                p.pop();
                if let Some(Value::Array(a)) = jsonmut::get(root, &p) {
                    if let Some(x) = a.iter().find(|x| !x.is_null()) {
                        return Some(x.clone());
                    }
                }
                if cls.ends_with("lookup_terminals[]") {
                    // an extension-field element: copy one opened value
                    let tl = parse_path("proof.opened_values.instances[0].base_opened_values.trace_local[0]");
                    return jsonmut::get(root, &tl).cloned();
                }
            }
            None
        }
    }
}

impl Schema {
    fn probe(cfg: &Config) -> Schema {
        let honest = cfg.honest();
        let ok = |v: &Value| (cfg.deser_fn)(v);
        let mut s = Schema {
            var_arrays: BTreeSet::new(),
            counts: BTreeMap::new(),
            options: BTreeSet::new(),
            value_leaves: BTreeSet::new(),
            fixed_arrays: BTreeSet::new(),
        };
        let mut seen: BTreeSet<String> = BTreeSet::new();
        for p in all_nodes(honest) {
            if is_aux(&p) || p.is_empty() {
                continue;
            }
            let cls = jsonmut::class_of(&p);
            let node = jsonmut::get(honest, &p).unwrap();
            // several members of one class may differ in emptiness / nullness: probe until a
            // decisive member was seen
            let key = format!("{cls}|{}", kind_tag(node));
            if !seen.insert(key) {
                continue;
            }
            // option?
            if cls.ends_with("_marker") || cls.ends_with("_phantom") {
                continue;
            }
            if node.is_null() {
                s.options.insert(cls.clone());
            } else {
                let mut m = honest.clone();
                *jsonmut::get_mut(&mut m, &p).unwrap() = Value::Null;
                if ok(&m) {
                    s.options.insert(cls.clone());
                }
            }
            match node {
                Value::Array(a) if !a.is_empty() => {
                    let mut m = honest.clone();
                    if let Some(Value::Array(x)) = jsonmut::get_mut(&mut m, &p) {
                        x.pop();
                    }
                    if ok(&m) {
                        s.var_arrays.insert(cls);
                    } else {
                        s.fixed_arrays.insert(cls);
                    }
                }
                Value::Number(_) => {
                    // an integer type T: T::MAX deserialises and T::MAX + 1 does not (field
                    // elements reject everything >= p, which is never of the form 2^k)
                    let try_v = |x: u64| {
                        let mut m = honest.clone();
                        *jsonmut::get_mut(&mut m, &p).unwrap() = Value::from(x);
                        ok(&m)
                    };
                    let mut max = None;
                    if try_v(u64::MAX) {
                        max = Some(u64::MAX);
                    } else {
                        for t in [u8::MAX as u64, u16::MAX as u64, u32::MAX as u64] {
                            if try_v(t) && !try_v(t + 1) {
                                max = Some(t);
                                break;
                            }
                        }
                    }
                    match max {
                        Some(mx) => {
                            s.counts.insert(cls, mx);
                        }
                        None => {
                            s.value_leaves.insert(cls);
                        }
                    }
                }
                _ => {}
            }
        }
        // a class can be both (e.g. an empty Vec member and a non-empty one): var wins
        for c in &s.var_arrays {
            s.fixed_arrays.remove(c);
        }
        s
    }
}

fn kind_tag(v: &Value) -> &'static str {
    match v {
        Value::Null => "null",
        Value::Bool(_) => "bool",
        Value::Number(_) => "num",
        Value::String(_) => "str",
        Value::Array(a) if a.is_empty() => "arr0",
        Value::Array(_) => "arr",
        Value::Object(_) => "obj",
    }
}

#[derive(Clone, Copy, PartialEq, Eq, Debug)]
enum TargetKind {
    Array,
    Count,
    Option,
}

fn kind_of_op(op: &Op) -> TargetKind {
    match op {
        Op::Truncate(_) | Op::Extend(_) | Op::Empty => TargetKind::Array,
        Op::Toggle | Op::ToggleZero => TargetKind::Option,
        Op::Count(_) => TargetKind::Count,
    }
}

/// All targets of one kind in the (possibly already mutated) bundle, grouped by class.
fn targets(schema: &Schema, v: &Value, kind: TargetKind) -> BTreeMap<String, Vec<Path>> {
    let mut out: BTreeMap<String, Vec<Path>> = BTreeMap::new();
    for p in all_nodes(v) {
        if is_aux(&p) || p.is_empty() {
            continue;
        }
        let cls = jsonmut::class_of(&p);
        let node = jsonmut::get(v, &p).unwrap();
        let hit = match kind {
            TargetKind::Array => node.is_array() && schema.var_arrays.contains(&cls),
            TargetKind::Count => node.is_number() && schema.counts.contains_key(&cls),
            TargetKind::Option => schema.options.contains(&cls),
        };
        if hit {
            out.entry(cls).or_default().push(p);
        }
    }
    out
}

fn count_value(old: u64, e: CountEdit) -> u64 {
    match e {
        CountEdit::Inc => old.wrapping_add(1),
        CountEdit::Dec => old.wrapping_sub(1),
        CountEdit::Zero => 0,
        CountEdit::One => 1,
        CountEdit::Double => old.wrapping_mul(2),
        CountEdit::Half => old / 2,
        CountEdit::Set(k) => k as u64,
        CountEdit::Pow2(k) => 1u64 << (k % 64),
        CountEdit::Big(k) => k as u64,
        CountEdit::Max => u64::MAX,
    }
}

/// Size-like counts (an allocation proportional to the value is plausible): the ladder of
/// large values is restricted so that an honest implementation cannot be driven into a
/// multi-gigabyte allocation (which would abort the process instead of unwinding).
fn is_size_like(cls: &str) -> bool {
    let last = cls.rsplit('.').next().unwrap_or(cls);
    let last = last.trim_end_matches("[]");
    matches!(
        last,
        "rows" | "lanes" | "width" | "public_lanes" | "alu_lanes" | "min_trace_height" | "horner_packed_steps"
    ) || last.ends_with("lanes")
}

fn clamp_size_like(v: u64) -> u64 {
    // keep 0 / small values and the overflow-provoking extremes (which make `Vec::with_capacity`
    // fail with a capacity overflow, a panic rather than an abort).  Already 2^16 lanes make both
    // verifiers build AIRs with millions of symbolic columns (the process is OOM-killed).
    if v <= 256 || v >= (1 << 62) { v } else { 256 }
}

/// Known process ABORTS (not unwinding panics) that the search has to step around by
/// construction; each is recorded in NOTES.md as a defect.  `C15_ALLOW_ABORT=1` disables the
/// clamps so that a replay file can demonstrate them (the process then dies).
fn avoid_abort(cls: &str, new: u64) -> u64 {
    static ALLOW: OnceLock<bool> = OnceLock::new();
    if *ALLOW.get_or_init(|| std::env::var("C15_ALLOW_ABORT").is_ok()) {
        return new;
    }
    if cls.ends_with(".log_arity") {
        // CommitPhaseProofStepTargets::new allocates ((1 << log_arity) - 1) * D targets from the
        // prover-supplied u8 before any validation: log_arity in 24..=63 requests gigabytes
        // (`memory allocation of 68719476720 bytes failed` -> abort).  The shift is masked in
        // release builds, so only `log_arity & 63` matters.
        if (new & 63) > 16 {
            return (new & !63) | 16;
        }
    }
    new
}

struct Applied {
    class: String,
    path: String,
    op: String,
    raw: Op,
    /// the alteration changed the length of an array / the presence of an option
    length_change: bool,
}

/// Apply one mutation; `None` when it has no effect on this bundle.
fn apply(schema: &Schema, v: &mut Value, m: &Mutation) -> Option<Applied> {
    let kind = kind_of_op(&m.op);
    let path: Path = if let Some(s) = &m.path {
        let p = parse_path(s);
        jsonmut::get(v, &p)?;
        p
    } else {
        let t = targets(schema, v, kind);
        if t.is_empty() {
            return None;
        }
        let classes: Vec<&String> = t.keys().collect();
        let cls = classes[pick(m.class, classes.len())];
        let items = &t[cls];
        items[pick(m.item, items.len())].clone()
    };
    let cls = jsonmut::class_of(&path);
    let root_copy = if matches!(m.op, Op::Toggle | Op::ToggleZero) { Some(v.clone()) } else { None };
    let node = jsonmut::get_mut(v, &path)?;
    let mut length_change = false;
    match &m.op {
        Op::Truncate(k) => {
            let a = node.as_array_mut()?;
            if a.is_empty() {
                return None;
            }
            let n = pick(*k, a.len());
            a.truncate(n);
            length_change = true;
        }
        Op::Extend(k) => {
            let a = node.as_array_mut()?;
            let last = a.last()?.clone();
            for _ in 0..(1 + k % 3) {
                a.push(last.clone());
            }
            length_change = true;
        }
        Op::Empty => {
            let a = node.as_array_mut()?;
            if a.is_empty() {
                return None;
            }
            a.clear();
            length_change = true;
        }
        Op::Toggle => {
            if node.is_null() {
                let t = option_template(root_copy.as_ref().unwrap(), &path)?;
                *node = t;
            } else {
                *node = Value::Null;
            }
            length_change = true;
        }
        Op::ToggleZero => {
            if !node.is_null() {
                return None;
            }
            fn zero(v: &mut Value) {
                match v {
                    Value::Number(_) => *v = Value::from(0u64),
                    Value::Array(a) => a.iter_mut().for_each(zero),
                    Value::Object(o) => o.values_mut().for_each(zero),
                    _ => {}
                }
            }
            let mut t = option_template(root_copy.as_ref().unwrap(), &path)?;
            zero(&mut t);
            *node = t;
            length_change = true;
        }
        Op::Count(e) => {
            let old = node.as_u64()?;
            let mut new = count_value(old, *e);
            if is_size_like(&cls) {
                new = clamp_size_like(new);
            }
            if let Some(mx) = schema.counts.get(&cls) {
                new = new.min(*mx);
            }
            new = avoid_abort(&cls, new);
            if new == old {
                return None;
            }
            *node = Value::from(new);
        }
    }
    Some(Applied {
        class: cls,
        path: jsonmut::path_string(&path),
        op: m.op.name(),
        raw: m.op.clone(),
        length_change,
    })
}

// ------------------------------------------------------------------------------------------
// oracle
// ------------------------------------------------------------------------------------------

/// Class as used inside signatures: the same proof vector has the same name in every bundle
/// layout (`bsp.proof...` of the circuit-prover bundles, `opening_proof[]` of hiding proofs).
fn sig_class(cls: &str) -> String {
    let c = cls.strip_prefix("bsp.").unwrap_or(cls);
    c.replace("opening_proof[].", "opening_proof.")
}

/// Vectors the code documents as shape-validated at circuit-build time
/// (`validate_proof_shape` in verifier/stark.rs, batch_stark.rs 371-519, fri/verifier.rs
/// 1408-1518), as class suffixes of the bundle JSON.
/// Stable rendering of an operator for the baseline key.
fn golden_op(op: &Op) -> String {
    serde_json::to_string(op).unwrap_or_default()
}

/// Keys `config|path|operator` of the single alterations that the recorded tree rejects at build
/// time (recorded with `C15_WRITE_GOLDEN=<dir>`, see tools/c15/write_golden.sh).
fn golden() -> &'static std::collections::HashSet<String> {
    static G: std::sync::OnceLock<std::collections::HashSet<String>> = std::sync::OnceLock::new();
    G.get_or_init(|| {
        let v: Value = serde_json::from_str(include_str!("c15_golden.json")).unwrap_or(Value::Null);
        v.get("build_rejected")
            .and_then(|a| a.as_array())
            .map(|a| a.iter().filter_map(|x| x.as_str().map(String::from)).collect())
            .unwrap_or_default()
    })
}

fn shape_validated(kind: Kind, cls: &str) -> bool {
    // HidingFriPcs proofs are `(random opened values, FRI proof)`: `opening_proof[]...`
    let cls = &cls.replace("opening_proof[].", "opening_proof.");
    let cls = cls.as_str();
    let fri = [
        "opening_proof.commit_phase_commits",
        "opening_proof.commit_pow_witnesses",
        "opening_proof.query_proofs",
        "opening_proof.query_proofs[].commit_phase_openings",
        "opening_proof.query_proofs[].commit_phase_openings[].sibling_values",
    ];
    if fri.iter().any(|s| cls.ends_with(s)) {
        return true;
    }
    match kind {
        Kind::Uni => [
            "proof.opened_values.trace_local",
            "proof.opened_values.trace_next",
            "proof.opened_values.preprocessed_local",
            "proof.opened_values.preprocessed_next",
            "proof.opened_values.quotient_chunks",
            "proof.opened_values.quotient_chunks[]",
            "proof.opened_values.random",
        ]
        .contains(&cls),
        Kind::Batch | Kind::CircuitProver => {
            let tail = [
                "proof.opened_values.instances",
                "proof.degree_bits",
                "base_opened_values.trace_local",
                "base_opened_values.trace_next",
                "base_opened_values.preprocessed_local",
                "base_opened_values.preprocessed_next",
                "base_opened_values.quotient_chunks",
                "base_opened_values.quotient_chunks[]",
                "base_opened_values.random",
                "instances[].permutation_local",
                "instances[].permutation_next",
                "common.lookups",
                "common.preprocessed.instances",
                "stark_common.instances",
                "pis",
            ];
            tail.iter().any(|s| cls.ends_with(s))
        }
    }
}

pub const RULE: &str = "honest (proof, preprocessed commitment / common data, FRI scalars, public values) of every \
configuration x 1-2 structural alterations (truncate / extend / empty of a variable-length array, Some<->None of an \
option, count or degree edit of an integer leaf; targets discovered by probing the deserialiser, selected class-first). \
Oracle under catch_unwind over allocate -> verify_*_circuit -> build -> pack -> set inputs -> MMCS private data -> run: \
no panic; never Ok when the native verifier rejects the same objects; a length change of a documented shape-validated \
vector is rejected by verify_*_circuit with InvalidProofShape/RandomizationError. Non-trivial = at least one alteration \
took effect and the bundle still deserialises; distinct on (config, concrete paths, operators)";

pub fn oracle_with(known: &[String], c: &Case) -> Report {
    let (rep, singles) = oracle_inner(known, c);
    if let crate::fw::Verdict::Fail { sig, .. } = &rep.verdict {
        if singles.len() > 1 && !known.iter().any(|k| k == sig) {
            // a combination that fails with an unlisted signature: if one of its alterations
            // alone reproduces a LISTED finding, the combination is attributed to that finding
            for m in singles {
                let (r1, _) = oracle_inner(known, &Case { cfg: c.cfg, muts: vec![m] });
                if let crate::fw::Verdict::Fail { sig: s1, .. } = &r1.verdict {
                    if known.iter().any(|k| k == s1) {
                        let mut out = rep.clone().class("combination-attributed-to-listed-single-finding");
                        out.verdict = r1.verdict.clone();
                        return out;
                    }
                }
            }
            // a combination that reaches a LISTED panic site (same file::fn and message class)
            // through other leaves than the listed ones is the same defect: listed panic
            // signatures are `C15/panic:<site>:<message>:<leaf class>`, the full signature has
            // `:<operator>` appended
            if sig.starts_with("C15/panic:") {
                let strip = |s: &str, n: usize| -> String {
                    let parts: Vec<&str> = s.split(':').collect();
                    parts[..parts.len().saturating_sub(n)].join(":")
                };
                let site = strip(sig, 2);
                if let Some(k) = known
                    .iter()
                    .find(|k| k.starts_with("C15/panic:") && strip(k, 1) == site)
                {
                    let mut out = rep.clone().class("combination-reaches-listed-panic-site");
                    if let crate::fw::Verdict::Fail { msg, .. } = &rep.verdict {
                        out.verdict = crate::fw::Verdict::Fail {
                            sig: k.clone(),
                            msg: msg.clone(),
                        };
                    }
                    return out;
                }
            }
        }
    }
    rep
}

/// Returns the report and the applied alterations as explicit single-path mutations.
fn oracle_inner(known: &[String], c: &Case) -> (Report, Vec<Mutation>) {
    let singles: std::cell::RefCell<Vec<Mutation>> = std::cell::RefCell::new(vec![]);
    let rep = oracle_core(known, c, &singles);
    (rep, singles.into_inner())
}

fn oracle_core(known: &[String], c: &Case, singles: &std::cell::RefCell<Vec<Mutation>>) -> Report {
    let cfgs = configs();
    let cfg = &cfgs[c.cfg as usize % cfgs.len()];
    let schema = cfg.schema();
    let mut v = cfg.honest().clone();
    let mut applied: Vec<Applied> = vec![];
    for m in &c.muts {
        if let Some(a) = apply(schema, &mut v, m) {
            applied.push(a);
        }
    }
    *singles.borrow_mut() = applied
        .iter()
        .map(|a| Mutation {
            class: 0,
            item: 0,
            op: a.raw.clone(),
            path: Some(a.path.clone()),
        })
        .collect();
    let mut rep = Report::pass().class(format!("cfg:{}", cfg.name));
    if applied.is_empty() || v == *cfg.honest() {
        return rep.class("effect:none");
    }
    let ev = match cfg.eval(&v) {
        Ok(e) => e,
        Err(e) => {
            let why = format!(
                "mutated bundle does not deserialise ({}:{})",
                applied[0].class,
                applied[0].op
            );
            let _ = e;
            return Report::discard(why);
        }
    };
    let first = &applied[0];
    let tag = applied
        .iter()
        .map(|a| format!("{}:{}", sig_class(&a.class), a.op))
        .collect::<Vec<_>>()
        .join("+");
    rep = rep
        .nontrivial(true)
        .key(hash_of(&(
            cfg.name,
            applied.iter().map(|a| (a.path.clone(), format!("{:?}", a.raw))).collect::<Vec<_>>(),
        )))
        .class(format!("muts:{}", applied.len()));
    for a in &applied {
        rep = rep.class(format!("op:{}", a.op)).class(format!("target:{}", a.class));
    }
    let native_tag = match &ev.native {
        Native::Ok => "accept",
        Native::Reject(_) => "reject",
        Native::Panic(_) => "panic",
    };
    let pipe_tag = match &ev.pipe {
        Pipe::Ok => "ok".to_string(),
        Pipe::Reject(r) => format!("reject@{}:{}", r.stage, r.variant),
        Pipe::Panic { stage, .. } => format!("panic@{stage}"),
    };
    rep = rep
        .class(format!("native:{native_tag}"))
        .class(format!("pipeline:{pipe_tag}"));

    let fail = |rep: Report, full: String, msg: String| -> Report {
        // a known-finding signature that is a prefix of the full signature absorbs it, so that
        // one listed panic site covers every (leaf class, operator) that reaches it
        let sig = known
            .iter()
            .filter(|k| full.starts_with(k.as_str()))
            .max_by_key(|k| k.len())
            .cloned()
            .unwrap_or(full.clone());
        let mut r = rep;
        r.verdict = crate::fw::Verdict::Fail {
            sig,
            msg: format!("{full}\n{msg}"),
        };
        r.nontrivial = true;
        r
    };
    let describe = || {
        applied
            .iter()
            .map(|a| format!("{} {}", a.op, a.path))
            .collect::<Vec<_>>()
            .join(" ; ")
    };

    // (i) no panic
    if let Pipe::Panic { stage, site, msg } = &ev.pipe {
        let full = format!(
            "C15/panic:{site}:{}:{}:{}",
            sig_of_panic(msg.split(" [raised inside std").next().unwrap_or(msg)),
            sig_class(&first.class),
            first.op
        );
        return fail(
            rep,
            full,
            format!(
                "[{}] {} -> the pipeline panicked in stage `{stage}` at {site}: {} (native verdict: {native_tag})",
                cfg.name,
                describe(),
                msg.lines().next().unwrap_or("")
            ),
        );
    }
    // native panicked: no verdict for (ii); (iii) still applies below
    // (ii) never Ok when native rejects
    if let (Pipe::Ok, Native::Reject(why)) = (&ev.pipe, &ev.native) {
        let full = format!("C15/weaker-circuit:{tag}");
        return fail(
            rep,
            full,
            format!(
                "[{}] {} -> native verifier rejects ({why}) but the recursive pipeline built, packed and ran Ok",
                cfg.name,
                describe()
            ),
        );
    }
    // (iii-b) recorded baseline: every single alteration that the recorded tree rejects while the
    // circuit is being BUILT (allocation / verify_*_circuit / build) must still be rejected there.
    // A rejection that moves to a later stage (packing, setting inputs, running) or disappears
    // means the builder now returns a circuit for a malformed proof.
    if applied.len() == 1 {
        let gkey = format!("{}|{}|{}", cfg.name, first.path, golden_op(&first.raw));
        let build_stage = |st: &str| matches!(st, "alloc" | "verify_circuit" | "build");
        if let Ok(dir) = std::env::var("C15_WRITE_GOLDEN") {
            if let Pipe::Reject(r) = &ev.pipe {
                if build_stage(r.stage) {
                    use std::io::Write;
                    let _ = std::fs::create_dir_all(&dir);
                    let f = format!("{dir}/golden-{:?}.txt", std::thread::current().id());
                    if let Ok(mut fh) = std::fs::OpenOptions::new().create(true).append(true).open(f) {
                        let _ = writeln!(fh, "{gkey}");
                    }
                }
            }
        } else if golden().contains(&gkey) {
            let moved = match &ev.pipe {
                Pipe::Reject(r) if build_stage(r.stage) => None,
                Pipe::Reject(r) => Some(format!("{}:{}", r.stage, r.variant)),
                Pipe::Ok => Some("accepted".to_string()),
                Pipe::Panic { .. } => None,
            };
            if let Some(now) = moved {
                let full = format!("C15/rejection-moved-later:{}:{}:{now}", sig_class(&first.class), first.op);
                return fail(
                    rep,
                    full,
                    format!(
                        "[{}] {} -> the recorded tree rejects this alteration while the verification circuit is built; now the builder returns a circuit and the outcome is `{now}`",
                        cfg.name,
                        describe()
                    ),
                );
            }
            rep = rep.class("baseline:still-rejected-at-build");
        }
    }
    // (iii) documented shape validation
    if applied.len() == 1 && first.length_change && shape_validated(cfg.kind, &first.class) {
        match &ev.pipe {
            Pipe::Reject(r)
                if r.stage == "verify_circuit"
                    && (r.variant == "InvalidProofShape" || r.variant == "RandomizationError") =>
            {
                rep = rep.class("shape-validated:rejected-at-build");
            }
            Pipe::Reject(r) => {
                let full = format!(
                    "C15/late-rejection:{}:{}:{}:{}",
                    sig_class(&first.class),
                    r.stage,
                    r.variant,
                    first.op
                );
                return fail(
                    rep,
                    full,
                    format!(
                        "[{}] {} -> a documented shape-validated vector changed length, but the rejection came from stage `{}` as {} ({}) instead of InvalidProofShape from verify_*_circuit",
                        cfg.name,
                        describe(),
                        r.stage,
                        r.variant,
                        r.msg
                    ),
                );
            }
            Pipe::Ok => {
                // native accepted (or panicked): the length change is tolerated end to end
                if matches!(ev.native, Native::Ok) {
                    rep = rep.class("shape-validated:accepted-by-both");
                } else {
                    let full = format!("C15/shape-change-accepted:{}:{}", sig_class(&first.class), first.op);
                    return fail(
                        rep,
                        full,
                        format!(
                            "[{}] {} -> pipeline Ok although a documented shape-validated vector changed length (native verifier panicked: no verdict)",
                            cfg.name,
                            describe()
                        ),
                    );
                }
            }
            Pipe::Panic { .. } => unreachable!(),
        }
    }
    if matches!(ev.native, Native::Panic(_)) {
        // no native verdict: counted separately (the pipeline neither panicked nor is (iii) violated)
        rep = rep.class("native-panicked:no-verdict-for-(ii)");
    }
    rep
}

// ------------------------------------------------------------------------------------------
// strategies and driver
// ------------------------------------------------------------------------------------------

fn op_strategy() -> impl Strategy<Value = Op> {
    let count = prop_oneof![
        Just(CountEdit::Inc),
        Just(CountEdit::Dec),
        Just(CountEdit::Zero),
        Just(CountEdit::One),
        Just(CountEdit::Double),
        Just(CountEdit::Half),
        (0u8..10).prop_map(CountEdit::Set),
        prop::sample::select(vec![16u8, 20, 27, 31, 32, 33, 62, 63]).prop_map(CountEdit::Pow2),
        prop::sample::select(vec![27u8, 28, 31, 32, 33, 63, 64, 65, 255]).prop_map(CountEdit::Big),
        Just(CountEdit::Max),
    ];
    prop_oneof![
        3 => any::<u16>().prop_map(Op::Truncate),
        3 => (0u8..3).prop_map(Op::Extend),
        2 => Just(Op::Empty),
        2 => Just(Op::Toggle),
        1 => Just(Op::ToggleZero),
        5 => count.prop_map(Op::Count),
    ]
}

fn case_strategy(n_cfg: usize) -> impl Strategy<Value = Case> {
    let m = (any::<u16>(), any::<u16>(), op_strategy()).prop_map(|(class, item, op)| Mutation {
        class,
        item,
        op,
        path: None,
    });
    (0..n_cfg as u8, prop::collection::vec(m, 1..3)).prop_map(|(cfg, muts)| Case { cfg, muts })
}

/// Every variable-length array and every count leaf of the honest bundle x every operator.
fn enumerate_all(cfg_idx: usize) -> Vec<Case> {
    let cfg = &configs()[cfg_idx];
    let schema = cfg.schema();
    let honest = cfg.honest();
    let mut out = vec![];
    let mk = |path: &Path, op: Op| Case {
        cfg: cfg_idx as u8,
        muts: vec![Mutation {
            class: 0,
            item: 0,
            op,
            path: Some(jsonmut::path_string(path)),
        }],
    };
    for (_cls, paths) in targets(schema, honest, TargetKind::Array) {
        for p in paths {
            let len = jsonmut::get(honest, &p).and_then(|v| v.as_array()).map_or(0, |a| a.len());
            if len == 0 {
                continue;
            }
            // truncate to len-1 (k chosen so that pick(k, len) == len-1), to 1 and to half
            let k_for = |n: usize| -> u16 { (((n << 16) + len - 1) / len).min(65535) as u16 };
            let mut ns = BTreeSet::new();
            ns.insert(len - 1);
            if len > 2 {
                ns.insert(1);
                ns.insert(len / 2);
            }
            for n in ns {
                if n > 0 {
                    out.push(mk(&p, Op::Truncate(k_for(n))));
                }
            }
            out.push(mk(&p, Op::Extend(0)));
            out.push(mk(&p, Op::Extend(1)));
            out.push(mk(&p, Op::Empty));
        }
    }
    for (_cls, paths) in targets(schema, honest, TargetKind::Option) {
        for p in paths {
            out.push(mk(&p, Op::Toggle));
            out.push(mk(&p, Op::ToggleZero));
        }
    }
    let edits = [
        CountEdit::Inc,
        CountEdit::Dec,
        CountEdit::Zero,
        CountEdit::One,
        CountEdit::Double,
        CountEdit::Half,
        CountEdit::Set(3),
        CountEdit::Set(7),
        CountEdit::Pow2(16),
        CountEdit::Pow2(20),
        CountEdit::Pow2(31),
        CountEdit::Pow2(32),
        CountEdit::Pow2(63),
        CountEdit::Big(27),
        CountEdit::Big(28),
        CountEdit::Big(31),
        CountEdit::Big(32),
        CountEdit::Big(63),
        CountEdit::Big(64),
        CountEdit::Big(65),
        CountEdit::Max,
    ];
    for (_cls, paths) in targets(schema, honest, TargetKind::Count) {
        for p in paths {
            for e in edits {
                out.push(mk(&p, Op::Count(e)));
            }
        }
    }
    out
}

/// Development aid (`C15_SURVEY=all|<substring of a configuration name>`): push the complete
/// single-alteration enumeration through the oracle WITHOUT known-finding absorption and print
/// the histogram of failure signatures; the first case of every signature is written to
/// `$VERIF_DIR/survey/`.
fn survey(sel: &str) {
    use std::sync::atomic::{AtomicUsize, Ordering};
    let cfgs = configs();
    let mut cases = vec![];
    let random = sel.starts_with("random:");
    if let Some(rest) = sel.strip_prefix("random:") {
        // `random:<n>:<seed>`: n cases drawn from the exploration strategy
        use proptest::strategy::ValueTree;
        use proptest::test_runner::{Config, RngAlgorithm, TestRng, TestRunner};
        let mut it = rest.split(':');
        let n: usize = it.next().and_then(|x| x.parse().ok()).unwrap_or(1000);
        let seed: u64 = it.next().and_then(|x| x.parse().ok()).unwrap_or(1);
        let rng = TestRng::from_seed(RngAlgorithm::ChaCha, &crate::fw::seed32(seed, "C15", "survey", 0));
        let mut runner = TestRunner::new_with_rng(Config::default(), rng);
        let strat = case_strategy(cfgs.len());
        for _ in 0..n {
            cases.push(strat.new_tree(&mut runner).unwrap().current());
        }
    } else {
        for (i, c) in cfgs.iter().enumerate() {
            if sel == "all" || c.name.contains(sel) {
                cases.extend(enumerate_all(i));
            }
        }
    }
    let known: Vec<String> = crate::fw::load_known()
        .findings
        .into_iter()
        .filter(|k| k.property == "C15")
        .map(|k| k.signature)
        .collect();
    eprintln!("survey: {} cases", cases.len());
    let hist: Mutex<BTreeMap<String, (u64, Case, String)>> = Mutex::new(BTreeMap::new());
    let classes: Mutex<BTreeMap<String, u64>> = Mutex::new(BTreeMap::new());
    let next = AtomicUsize::new(0);
    std::thread::scope(|sc| {
        for _ in 0..16 {
            sc.spawn(|| loop {
                let i = next.fetch_add(1, Ordering::Relaxed);
                if i >= cases.len() {
                    break;
                }
                if std::env::var("VERIF_LOG_LAST").is_ok() {
                    let p = format!("/tmp/c15-last-{:?}.json", std::thread::current().id());
                    let _ = std::fs::write(p, serde_json::to_string(&cases[i]).unwrap());
                }
                let absorb: &[String] = if random { &known } else { &[] };
                let rep = match catch(|| oracle_with(absorb, &cases[i])) {
                    Ok(r) => r,
                    Err(m) => Report::fail(format!("HARNESS-PANIC:{}", sig_of_panic(&m)), m),
                };
                match &rep.verdict {
                    crate::fw::Verdict::Fail { sig, msg } => {
                        let mut h = hist.lock().unwrap();
                        let e = h.entry(sig.clone()).or_insert((0, cases[i].clone(), msg.clone()));
                        e.0 += 1;
                    }
                    crate::fw::Verdict::Discard(w) => {
                        *classes.lock().unwrap().entry(format!("DISCARD {w}")).or_default() += 1;
                    }
                    _ => {}
                }
                let mut cl = classes.lock().unwrap();
                for c in &rep.classes {
                    if c.starts_with("native:") || c.starts_with("pipeline:") || c.starts_with("shape-") {
                        *cl.entry(c.clone()).or_default() += 1;
                    }
                }
            });
        }
    });
    let dir = crate::fw::verif_dir().join("survey");
    let _ = std::fs::create_dir_all(&dir);
    for (k, v) in classes.into_inner().unwrap() {
        println!("class {v:6} {k}");
    }
    for (sig, (n, case, msg)) in hist.into_inner().unwrap() {
        let listed = known.iter().any(|k| sig.starts_with(k.as_str()));
        if random && listed {
            continue;
        }
        println!("FAIL{} {n:6} {sig}", if listed { "" } else { "-NEW" });
        println!("        {}", msg.lines().nth(1).unwrap_or(""));
        let f = dir.join(format!("{:016x}.json", hash_of(&sig)));
        let _ = std::fs::write(
            f,
            serde_json::to_string_pretty(&serde_json::json!({"signature": sig, "case": case, "message": msg})).unwrap(),
        );
    }
}

pub fn run(ctx: &Ctx) {
    install_hook();
    ctx.assume("FriVerifierParams::permutation_config = None (arithmetic-only) is documented as unsound and is not part of the mutated bundle");
    ctx.assume("the verifier's own preprocessed key metadata (width, degree_bits of PreprocessedVerifierKey) is trusted input and not mutated; only the commitment travels to the circuit");
    ctx.assume("the native configuration is rebuilt from the same (mutated) four FRI scalars as FriVerifierParams; num_queries = 2 and max_log_arity = 1 stay as in FriParameters::new_testing");
    ctx.shrink_iters.store(60, std::sync::atomic::Ordering::Relaxed);
    let known = ctx.known_sigs();
    let cfgs = configs();

    // self-check: every honest bundle is accepted natively and end-to-end by the pipeline
    if !ctx.in_replay() {
        let mut schema_note = serde_json::Map::new();
        for cfg in cfgs {
            let t0 = std::time::Instant::now();
            let ev = cfg.eval(cfg.honest());
            let ok = matches!(&ev, Ok(e) if matches!(e.native, Native::Ok) && matches!(e.pipe, Pipe::Ok));
            if !ok {
                let d = match &ev {
                    Ok(e) => format!("native={:?} pipe={:?}", e.native, e.pipe),
                    Err(e) => format!("deserialise: {e}"),
                };
                eprintln!("C15 self-check failed: honest bundle of {} is not accepted: {d}", cfg.name);
                std::process::exit(2);
            }
            let one = t0.elapsed().as_secs_f64();
            let s = cfg.schema();
            schema_note.insert(
                cfg.name.to_string(),
                serde_json::json!({
                    "honest_eval_s": (one * 1000.0).round() / 1000.0,
                    "variable_arrays": s.var_arrays,
                    "fixed_arrays": s.fixed_arrays,
                    "count_leaves": s.counts,
                    "options": s.options,
                    "value_leaves": s.value_leaves,
                }),
            );
        }
        ctx.extra("schema", Value::Object(schema_note));
    }

    if let Ok(sel) = std::env::var("C15_SURVEY") {
        survey(&sel);
        return;
    }

    let n = ctx.tier.pick(8_000, 200_000);
    let ncfg = cfgs.len();
    ctx.explore("structural", RULE, n, || case_strategy(ncfg), |c| oracle_with(&known, c));

    // complete single-alteration enumeration (every variable-length array, every option, every
    // count leaf of every configuration's honest bundle x every operator); cheap enough for
    // the quick tier as well
    if ctx.in_replay() {
        ctx.enumerate("enumerate", RULE, Vec::<Case>::new(), true, |c| oracle_with(&known, c));
    } else {
        let mut total = 0usize;
        for i in 0..ncfg {
            let cases = enumerate_all(i);
            total += cases.len();
            ctx.note(format!("enumeration of {}: {} single alterations", cfgs[i].name, cases.len()));
            ctx.enumerate("enumerate", RULE, cases, true, |c| oracle_with(&known, c));
        }
        ctx.note(format!("enumeration total: {total} single alterations"));
    }
    ctx.replay_known("structural", |c: &Case| oracle_with(&known, c));
    ctx.replay_known("enumerate", |c: &Case| oracle_with(&known, c));
}
