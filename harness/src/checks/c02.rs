//! C02 — compilation preserves the value of every expression and the run outcome.
//!
//! Translation validation by random programs: every generated source program is replayed
//! against the real `CircuitBuilder`, compiled, executed by `CircuitRunner`, and compared
//! node by node with the reference evaluator of `e1` (plain field arithmetic, no folding,
//! no sharing).

use p3_circuit::{AluOpKind, Circuit, CircuitError, Op};

use crate::dispatch_field;
use crate::e1::{self, Built, GenOpts, Prog};
use crate::fields::Fc;
use crate::pv::Pv;
use crate::fw::{Ctx, Report, hash_of};

pub const RULE: &str = "random source programs (2-40 statements; thorough up to 200) over 5 field \
configurations, inputs generated satisfying-by-construction (Copy statements) and violating \
(non-zero delta / free connect); non-trivial = an optimiser/lowerer mechanism fired: witness_rewrite \
non-empty (dedup), fused MulAdd with intermediate_out, a connect class of two different nodes, a \
backward (sub/div) op, or fewer ALU ops than arithmetic source nodes (folding/CSE); distinct on the \
program hash";

pub struct Mech {
    pub classes: Vec<String>,
    pub fired: bool,
}

pub fn mechanisms<C: Fc>(built_features: &std::collections::BTreeSet<String>, circuit: &Circuit<C::EF>) -> Mech {
    let mut classes = vec![];
    let mut fired = false;
    if circuit.witness_rewrite.as_ref().is_some_and(|r| !r.is_empty()) {
        classes.push("mech:dedup-rewrite".to_string());
        fired = true;
    }
    let mut fused = false;
    let mut alu = 0usize;
    for op in &circuit.ops {
        if let Op::Alu {
            kind,
            intermediate_out,
            ..
        } = op
        {
            alu += 1;
            if *kind == AluOpKind::MulAdd && intermediate_out.is_some() {
                fused = true;
            }
        }
    }
    if fused {
        classes.push("mech:fused-muladd".into());
        fired = true;
    }
    for f in built_features {
        if f == "connect" || f.starts_with("copy-") || f == "assert_zero" {
            classes.push("mech:connect-class".into());
            fired = true;
            break;
        }
    }
    if built_features.contains("sub") || built_features.contains("div") {
        classes.push("mech:backward-op".into());
        fired = true;
    }
    classes.push(format!("alu-ops:{}", bucket(alu)));
    Mech { classes, fired }
}

fn bucket(n: usize) -> &'static str {
    match n {
        0 => "0",
        1..=3 => "1-3",
        4..=10 => "4-10",
        11..=30 => "11-30",
        _ => "31+",
    }
}

pub fn err_name(e: &CircuitError) -> String {
    let s = format!("{e:?}");
    s.split(|c: char| !c.is_alphanumeric())
        .next()
        .unwrap_or("Err")
        .to_string()
}

pub fn check_prog<C: Pv>(prog: &Prog) -> Report {
    let (built, linked): (Built<C>, bool) = e1::interpret_linked::<C>(prog, e1::Excl::RUNNER);
    let src_sat = built.src_sat();
    let Built {
        builder,
        nodes,
        publics,
        privates,
        asserts,
        div_zero,
        features,
        excluded,
        ..
    } = built;
    let circuit = match builder.build() {
        Ok(c) => c,
        Err(e) => {
            let s = format!("{e:?}");
            let name = s.split(|c: char| !c.is_alphanumeric()).next().unwrap_or("");
            return Report::fail(format!("C02/build-error:{name}"), s);
        }
    };
    if std::env::var("VERIF_DEBUG").is_ok() {
        for (k, n) in nodes.iter().enumerate() {
            eprintln!("node {k}: {:?} stmt {} expr {:?} -> {:?} val {:?}", n.kind, n.stmt as isize, n.expr, circuit.expr_to_widx.get(&n.expr).map(|w| w.0), C::coeffs(&n.val));
        }
        for op in &circuit.ops {
            eprintln!("  {}", crate::e1::fmt_op::<C>(op));
        }
        eprintln!("public_rows {:?} rewrite {:?}", circuit.public_rows, circuit.witness_rewrite);
    }
    let mech = mechanisms::<C>(&features, &circuit);
    let mut rep = Report::pass()
        .classes(mech.classes.clone())
        .classes(features.iter().map(|f| format!("feat:{f}")))
        .class(format!("field:{}", C::NAME))
        .class(if linked { "decompose-links:recompose/coeff" } else { "decompose-links:default" })
        .classes(excluded.iter().map(|e| format!("excluded_by_known_finding:{e}")))
        .nontrivial(mech.fired)
        .key(hash_of(prog));

    let mut runner = circuit.runner();
    if let Err(e) = runner.set_public_inputs(&publics) {
        // a conflict can legitimately surface here when two public inputs share a slot
        if src_sat {
            return fail(rep, "C02/sat-inputs-rejected:set_public_inputs", format!("{e:?}"));
        }
        return rep.class("outcome:violating-rejected-at-set-inputs");
    }
    if let Err(e) = runner.set_private_inputs(&privates) {
        if src_sat {
            return fail(rep, "C02/sat-inputs-rejected:set_private_inputs", format!("{e:?}"));
        }
        return rep.class("outcome:violating-rejected-at-set-inputs");
    }
    let res = runner.run();

    if div_zero {
        // the statement promises success only for non-zero divisors: judged by "no panic"
        rep = rep.class("outcome:div-by-zero(no-panic-only)");
        rep.nontrivial = false;
        return rep;
    }
    if src_sat {
        let mut known_hit: Option<(String, String)> = None;
        let traces = match res {
            Ok(t) => t,
            Err(e) => {
                return fail(
                    rep,
                    &format!("C02/sat-run-failed:{}", err_name(&e)),
                    format!("all asserted relations hold, divisors non-zero, but run() = {e:?}"),
                );
            }
        };
        // A mismatch whose signature is a listed known finding taints its dependants; the
        // scan continues so that an unrelated mismatch in the same case is still reported.
        let mut tainted = vec![false; nodes.len()];
        for (k, n) in nodes.iter().enumerate() {
            if n.undefined {
                continue;
            }
            if n.deps.iter().any(|&d| tainted[d]) {
                tainted[k] = true;
                continue;
            }
            let Some(w) = circuit.expr_to_widx.get(&n.expr) else {
                return fail(
                    rep,
                    &format!("C02/no-witness-for-node:{:?}", n.kind),
                    format!("node {k} ({:?}, stmt {}) has no witness slot", n.kind, n.stmt),
                );
            };
            let got = traces.witness_trace.get_value(*w).copied();
            if got != Some(n.val) {
                let sig = mismatch_sig::<C>(prog, &nodes, k);
                let msg = format!(
                    "node {k} ({:?}, stmt {}): runner value {:?} != reference {:?}",
                    n.kind,
                    n.stmt,
                    got.map(|g| C::coeffs(&g)),
                    C::coeffs(&n.val)
                );
                if is_known_sig(&sig) {
                    tainted[k] = true;
                    known_hit = Some((sig, msg));
                    continue;
                }
                return fail(rep, &sig, msg);
            }
        }
        if let Some((sig, msg)) = known_hit {
            return fail(rep, &sig, msg);
        }
        rep.class("outcome:sat-ok")
    } else {
        // some asserted relation is violated
        let only_bool = asserts.iter().all(|a| a.holds || a.kind == "bool");
        match res {
            Err(_) => rep.class("outcome:violating-run-err"),
            Ok(traces) => {
                if only_bool && hash_of(prog) % 64 != 0 {
                    // proving every such case would dominate the run; a fixed 1/64 sample
                    // (by program hash, so deterministic) is proven, the rest is only counted
                    rep.class("outcome:violating-bool-run-ok(not sampled for proving)")
                } else if only_bool {
                    // the runner does not evaluate BoolCheck; the property allows "or the
                    // trace cannot be proven" — decided by proving in `violating_bool`.
                    match prove_rejects::<C>(&circuit, &traces, prog.recompose_npo) {
                        Some(true) => rep.class("outcome:violating-bool-unprovable"),
                        Some(false) => fail(
                            rep,
                            "C02/violating-bool-proved",
                            "a violated assert_bool ran Ok and the trace was proven and verified".into(),
                        ),
                        None => rep.class("outcome:violating-bool-not-proved(no prover for field)"),
                    }
                } else {
                    let bad: Vec<String> = asserts
                        .iter()
                        .filter(|a| !a.holds)
                        .map(|a| format!("{}@stmt{}", a.kind, a.stmt))
                        .collect();
                    let kinds: std::collections::BTreeSet<&str> =
                        asserts.iter().filter(|a| !a.holds).map(|a| a.kind).collect();
                    fail(
                        rep,
                        &format!(
                            "C02/violating-run-ok:{}",
                            kinds.into_iter().collect::<Vec<_>>().join("+")
                        ),
                        format!("violated relations {bad:?} but run() = Ok"),
                    )
                }
            }
        }
    }
}

/// Known-finding signatures of this property (set once by `run`).
pub static KNOWN: std::sync::OnceLock<Vec<String>> = std::sync::OnceLock::new();

fn is_known_sig(sig: &str) -> bool {
    KNOWN.get().is_some_and(|k| k.iter().any(|x| x == sig))
}

/// Signature of a value mismatch at node `k`: the node kind, refined by the one shape that
/// is a listed finding (coefficients of a `select` whose selector is not a base-field value).
pub fn mismatch_sig<C: Fc>(prog: &Prog, nodes: &[e1::Node<C>], k: usize) -> String {
    let n = &nodes[k];
    let mut sig = format!("C02/value-mismatch:{:?}", n.kind);
    if n.kind == e1::NK::Coeff {
        if let Some(e1::Stmt::ExtDecomp(_)) = prog.stmts.get(n.stmt) {
            if let Some(&src) = n.deps.first() {
                if select_with_ext_selector::<C>(nodes, src, 0) {
                    sig.push_str(":select-with-extension-selector");
                }
            }
        }
    }
    sig
}

/// Is node `i` (or a node it aliases by value through Copy) a `select` whose selector value
/// lies outside the base field?
fn select_with_ext_selector<C: Fc>(nodes: &[e1::Node<C>], i: usize, depth: usize) -> bool {
    let n = &nodes[i];
    if depth > 8 {
        return false;
    }
    match n.kind {
        e1::NK::Select => {
            let sel = n.deps.first().copied().unwrap_or(0);
            if !C::is_base(&nodes[sel].val) {
                return true;
            }
            // nested selects in either branch
            n.deps.iter().skip(1).any(|&d| select_with_ext_selector::<C>(nodes, d, depth + 1))
        }
        e1::NK::Public | e1::NK::Private | e1::NK::Const => {
            n.deps.iter().any(|&d| select_with_ext_selector::<C>(nodes, d, depth + 1))
        }
        _ => false,
    }
}

/// Is the trace of a violating run unprovable?  `Some(true)` = prove or verify failed.
pub fn prove_rejects<C: Pv>(
    circuit: &Circuit<C::EF>,
    traces: &p3_circuit::Traces<C::EF>,
    recompose: bool,
) -> Option<bool> {
    let r = C::prove_verify(
        circuit,
        traces,
        &p3_circuit_prover::TablePacking::default(),
        &crate::pv::NpoSel { recompose, debug_lookups: false, poseidon2: None, poseidon1: None },
    );
    Some(r.is_err())
}

fn fail(mut rep: Report, sig: &str, msg: String) -> Report {
    rep.verdict = crate::fw::Verdict::Fail {
        sig: sig.to_string(),
        msg,
    };
    rep.nontrivial = true;
    rep
}

pub fn oracle(prog: &Prog) -> Report {
    dispatch_field!(prog.field as usize, C => check_prog::<C>(prog))
}

pub fn run(ctx: &Ctx) {
    let _ = KNOWN.set(ctx.known_sigs());
    ctx.assume("reference evaluator: p3-field arithmetic over the un-simplified statement list");
    ctx.assume("division by zero cases are judged only by absence of panics (the statement promises success only for non-zero divisors)");
    let n = ctx.tier.pick(600_000, 20_000_000);
    ctx.explore("programs", RULE, n, || e1::prog_strategy(GenOpts::default()), oracle);
    // satisfying-only, aliasing-heavy programs (no free connects, no deltas): every case must run Ok
    let n2 = ctx.tier.pick(400_000, 10_000_000);
    ctx.explore(
        "programs-sat",
        RULE,
        n2,
        || {
            e1::prog_strategy(GenOpts {
                violating: false,
                free_connect: false,
                allow_div: false,
                max_len: 30,
                ..GenOpts::default()
            })
        },
        oracle,
    );
    if ctx.tier == crate::fw::Tier::Thorough {
        ctx.explore(
            "programs-long",
            RULE,
            100_000,
            || {
                e1::prog_strategy(GenOpts {
                    min_len: 40,
                    max_len: 200,
                    violating: false,
                    free_connect: false,
                    ..GenOpts::default()
                })
            },
            oracle,
        );
    }
    ctx.replay_known("programs", |p: &Prog| e1::without_exclusions(|| oracle(p)));
    // direct permutation calls (sponge / Merkle rows): exposed outputs and committed row inputs = model
    ctx.explore("perm-programs", crate::checks::pp::RULE_VALUES, ctx.tier.pick(20_000, 1_000_000),
        crate::checks::pp::strategy, |c| crate::checks::pp::oracle_values(c, "C02/perm-programs"));
}
