//! C05 — the in-circuit Fiat-Shamir transcript equals the native transcript.
//!
//! Model-based history generation.  A *history* is a finite sequence of challenger operations
//! (observe base / ext / slices, re-observe an earlier sample, sample base / ext / bits, check a
//! proof-of-work witness, clear).  It is interpreted twice:
//!
//! * against the **model**: `p3_challenger::DuplexChallenger` with the native permutation
//!   (`clear` = a fresh `DuplexChallenger::new`, which is what "reset state and buffers" means);
//! * against the **implementation**: `p3_recursion::challenger::CircuitChallenger` driving a
//!   `CircuitBuilder`, every observed value a public input, every sampled target remembered.
//!
//! After `CircuitRunner::run` every sampled target must hold the model's value; `run` must fail
//! iff the model's `check_witness` returned `false` for some PoW step.  For histories with a
//! rejected PoW a second circuit is built in which the rejected checks are replaced by their
//! transcript effect (`observe(witness); sample_bits(bits)`) so that transcript equality is still
//! judged, and the rejection is attributable to the `assert_zero` on bits the model says are
//! non-zero.
//!
//! The case type and the builders are exported for C06 (which proves these circuits and forges
//! their traces): [`History`], [`history_strategy`], [`Kit`] / [`with_kit`], [`resolve`],
//! [`replay_native`], [`build_circuit`], [`build_from_history`].

#![allow(dead_code)] // parts of the exported API are only consumed by C06

use std::collections::BTreeSet;

use p3_baby_bear::{BabyBear, default_babybear_poseidon1_16, default_babybear_poseidon2_16};
use p3_challenger::{
    CanObserve, CanSample, CanSampleBits, DuplexChallenger, FieldChallenger, GrindingChallenger,
};
use p3_circuit::ops::poseidon1_perm as p1;
use p3_circuit::ops::{
    Poseidon1Config, Poseidon2Config, generate_poseidon1_trace, generate_poseidon2_trace,
    generate_recompose_trace,
};
use p3_circuit::{CircuitBuilder, ExprId};
use p3_field::{BasedVectorSpace, ExtensionField, Field, PrimeCharacteristicRing, PrimeField64};
use p3_goldilocks::poseidon1::default_goldilocks_poseidon1_8;
use p3_goldilocks::{Goldilocks, Poseidon2Goldilocks};
use p3_koala_bear::{KoalaBear, default_koalabear_poseidon1_16, default_koalabear_poseidon2_16};
use p3_recursion::challenger::CircuitChallenger;
use p3_recursion::traits::RecursiveChallenger;
use p3_symmetric::{CryptographicPermutation, Permutation};
use p3_test_utils::LiftPermToQuintic;
use proptest::prelude::*;
use rand::SeedableRng;
use rand::rngs::SmallRng;
use serde::{Deserialize, Serialize};

use crate::fields::{Bb1, Bb4, Fc, Gl2, Kb1, Kb4, Kb5};
use crate::fw::{self, Ctx, Report, Verdict, hash_of};
use crate::pv::Pv;

// ---------------------------------------------------------------------------------------------
// The case type
// ---------------------------------------------------------------------------------------------

/// One challenger operation of a generated history.  Field values are raw `u64`s reduced with
/// `BF::from_u64`; extension values carry 5 coefficients of which the first `D` are used.
#[derive(Clone, Debug, Serialize, Deserialize, Hash, PartialEq, Eq)]
pub enum ChOp {
    ObserveBase(u64),
    ObserveExt(Vec<u64>),
    ObserveSlice(Vec<u64>),
    ObserveExtSlice(Vec<Vec<u64>>),
    /// observe again a target that was sampled earlier (`idx` picks among the eligible earlier
    /// samples; `as_ext` uses `observe_ext`, whose decomposition takes the provenance shortcut
    /// for `sample_ext` outputs).  Skipped when nothing has been sampled yet.
    ObservePrev { idx: u16, as_ext: bool },
    SampleBase,
    SampleExt,
    SampleExtVec(u8),
    /// `sample_bits(k)`, `k = raw % (max_bits + 1)` where `max_bits` is the largest count the
    /// native challenger accepts for the field (30 for the 31-bit fields, 63 for Goldilocks).
    SampleBits(u8),
    /// `check_pow_witness(bits % 9, w)`; `w` is found at resolution time by native grinding from
    /// `start`: the first candidate whose native verdict equals `want_valid`.
    CheckPow { bits: u8, want_valid: bool, start: u64 },
    Clear,
}

impl ChOp {
    pub fn kind(&self) -> &'static str {
        match self {
            ChOp::ObserveBase(_) => "observe",
            ChOp::ObserveExt(_) => "observe_ext",
            ChOp::ObserveSlice(_) => "observe_slice",
            ChOp::ObserveExtSlice(_) => "observe_ext_slice",
            ChOp::ObservePrev { as_ext: false, .. } => "observe(sampled)",
            ChOp::ObservePrev { as_ext: true, .. } => "observe_ext(sampled)",
            ChOp::SampleBase => "sample",
            ChOp::SampleExt => "sample_ext",
            ChOp::SampleExtVec(_) => "sample_ext_vec",
            ChOp::SampleBits(_) => "sample_bits",
            ChOp::CheckPow { .. } => "check_pow_witness",
            ChOp::Clear => "clear",
        }
    }
}

/// A history together with the challenger configuration it is run under.
#[derive(Clone, Debug, Serialize, Deserialize, Hash, PartialEq, Eq)]
pub struct History {
    /// index into [`KIT_NAMES`]
    pub cfg: u8,
    /// `CircuitBuilder::enable_recompose` (recompose NPO tables) on / off
    pub recompose: bool,
    /// `CircuitBuilder::set_recompose_coeff_ctl_for_decompose_links`
    pub coeff_ctl: bool,
    pub ops: Vec<ChOp>,
}

/// A history with every value made concrete (PoW witnesses ground, `ObservePrev` resolved to a
/// sample index, bit counts reduced).  Values are canonical representatives.
#[derive(Clone, Debug, Serialize, Deserialize, PartialEq, Eq)]
pub enum Step {
    ObserveBase(u64),
    ObserveExt(Vec<u64>),
    ObserveSlice(Vec<u64>),
    ObserveExtSlice(Vec<Vec<u64>>),
    /// index into `NativeOut::samples`
    ObservePrev { sample: usize, as_ext: bool },
    SampleBase,
    SampleExt,
    SampleExtVec(usize),
    SampleBits(usize),
    Pow { bits: usize, witness: u64 },
    Clear,
}

// ---------------------------------------------------------------------------------------------
// The model: native DuplexChallenger behind an object-safe facade
// ---------------------------------------------------------------------------------------------

pub trait NativeCh<BF, EF>: Send {
    fn observe(&mut self, v: BF);
    fn observe_slice(&mut self, v: &[BF]);
    fn observe_ext(&mut self, v: EF);
    fn observe_ext_slice(&mut self, v: &[EF]);
    fn sample(&mut self) -> BF;
    fn sample_ext(&mut self) -> EF;
    fn sample_bits(&mut self, k: usize) -> usize;
    fn check_witness(&mut self, bits: usize, w: BF) -> bool;
    fn fork(&self) -> Box<dyn NativeCh<BF, EF>>;
    /// what `clear` means: a challenger that has seen nothing
    fn fresh(&self) -> Box<dyn NativeCh<BF, EF>>;
    fn in_len(&self) -> usize;
    fn out_len(&self) -> usize;
}

impl<BF, EF, P, const W: usize, const R: usize> NativeCh<BF, EF> for DuplexChallenger<BF, P, W, R>
where
    BF: PrimeField64 + Send + Sync,
    EF: ExtensionField<BF> + Send + Sync,
    P: CryptographicPermutation<[BF; W]>
        + CryptographicPermutation<[<BF as Field>::Packing; W]>
        + Send
        + Sync
        + 'static,
{
    fn observe(&mut self, v: BF) {
        CanObserve::<BF>::observe(self, v)
    }
    fn observe_slice(&mut self, v: &[BF]) {
        CanObserve::<BF>::observe_slice(self, v)
    }
    fn observe_ext(&mut self, v: EF) {
        FieldChallenger::<BF>::observe_algebra_element(self, v)
    }
    fn observe_ext_slice(&mut self, v: &[EF]) {
        FieldChallenger::<BF>::observe_algebra_slice(self, v)
    }
    fn sample(&mut self) -> BF {
        CanSample::<BF>::sample(self)
    }
    fn sample_ext(&mut self) -> EF {
        FieldChallenger::<BF>::sample_algebra_element::<EF>(self)
    }
    fn sample_bits(&mut self, k: usize) -> usize {
        CanSampleBits::<usize>::sample_bits(self, k)
    }
    fn check_witness(&mut self, bits: usize, w: BF) -> bool {
        GrindingChallenger::check_witness(self, bits, w)
    }
    fn fork(&self) -> Box<dyn NativeCh<BF, EF>> {
        Box::new(self.clone())
    }
    fn fresh(&self) -> Box<dyn NativeCh<BF, EF>> {
        Box::new(DuplexChallenger::<BF, P, W, R>::new(self.permutation.clone()))
    }
    fn in_len(&self) -> usize {
        self.input_buffer.len()
    }
    fn out_len(&self) -> usize {
        self.output_buffer.len()
    }
}

// ---------------------------------------------------------------------------------------------
// Challenger configurations
// ---------------------------------------------------------------------------------------------

pub type BfOf<K> = <<K as Kit>::F as Fc>::BF;
pub type EfOf<K> = <<K as Kit>::F as Fc>::EF;

/// One challenger configuration: the native permutation, how the circuit builder is prepared
/// and which `CircuitChallenger` is used.  `F` also names the prover configuration (`Pv`).
pub trait Kit: 'static + Send + Sync {
    type F: Pv;
    const NAME: &'static str;
    const WIDTH: usize;
    const RATE: usize;
    /// "p2" / "p1"
    const PERM: &'static str;
    /// extension degree the permutation NPO packs with (1 = compact base path)
    const PERM_D: usize;
    /// the repo's own tests/examples instantiate this configuration
    const IN_REPO: bool = true;

    fn native() -> Box<dyn NativeCh<BfOf<Self>, EfOf<Self>>>;
    fn builder(recompose: bool, coeff_ctl: bool) -> CircuitBuilder<EfOf<Self>>;
    fn challenger() -> Box<dyn RecursiveChallenger<BfOf<Self>, EfOf<Self>>>;

    /// failure-class label: which duplexing code path the configuration exercises
    fn path() -> String {
        let lifted = if Self::PERM_D == 1 && <Self::F as Fc>::D > 1 {
            "-lifted"
        } else {
            ""
        };
        format!(
            "{}-{}{}",
            Self::PERM,
            if Self::PERM_D == 1 { "base" } else { "ext" },
            lifted
        )
    }
}

/// Lifts a base-field permutation to lanes of any extension field (acts on coefficient 0), the
/// quartic analogue of the repo's `LiftPermToQuintic`.
#[derive(Clone)]
pub struct LiftPerm<F, EF, P, const W: usize> {
    perm: P,
    _p: core::marker::PhantomData<(F, EF)>,
}

impl<F, EF, P, const W: usize> LiftPerm<F, EF, P, W> {
    pub const fn new(perm: P) -> Self {
        Self {
            perm,
            _p: core::marker::PhantomData,
        }
    }
}

impl<F, EF, P, const W: usize> Permutation<[EF; W]> for LiftPerm<F, EF, P, W>
where
    F: Field,
    EF: ExtensionField<F>,
    P: Permutation<[F; W]>,
{
    fn permute(&self, input: [EF; W]) -> [EF; W] {
        let bases: [F; W] = core::array::from_fn(|i| <EF as BasedVectorSpace<F>>::as_basis_coefficients_slice(&input[i])[0]);
        let out = self.perm.permute(bases);
        core::array::from_fn(|i| EF::from(out[i]))
    }
}

fn gl_poseidon2_8() -> Poseidon2Goldilocks<8> {
    // the permutation of `p3_circuit_prover::config::goldilocks()` and of the repo's tests
    let mut rng = SmallRng::seed_from_u64(1);
    Poseidon2Goldilocks::<8>::new_from_rng_128(&mut rng)
}

macro_rules! kit {
    (
        $ty:ident, $name:literal, $fc:ty, $bf:ty, $w:literal, $r:literal, $perm:literal, $pd:literal, $in_repo:literal,
        native: $native:expr,
        enable: |$b:ident| $enable:expr,
        challenger: $ch:expr
    ) => {
        pub struct $ty;
        impl Kit for $ty {
            type F = $fc;
            const NAME: &'static str = $name;
            const WIDTH: usize = $w;
            const RATE: usize = $r;
            const PERM: &'static str = $perm;
            const PERM_D: usize = $pd;
            const IN_REPO: bool = $in_repo;

            fn native() -> Box<dyn NativeCh<BfOf<Self>, EfOf<Self>>> {
                Box::new(DuplexChallenger::<$bf, _, $w, $r>::new($native))
            }
            fn builder(recompose: bool, coeff_ctl: bool) -> CircuitBuilder<EfOf<Self>> {
                let mut $b = CircuitBuilder::<EfOf<Self>>::new();
                $enable;
                if recompose {
                    $b.enable_recompose::<$bf>(generate_recompose_trace::<$bf, EfOf<Self>>);
                }
                $b.set_recompose_coeff_ctl_for_decompose_links(coeff_ctl);
                $b
            }
            fn challenger() -> Box<dyn RecursiveChallenger<BfOf<Self>, EfOf<Self>>> {
                Box::new($ch)
            }
        }
    };
}

type Ef<C> = <C as Fc>::EF;

kit!(P2Bb4, "p2-babybear-d4-w16", Bb4, BabyBear, 16, 8, "p2", 4, true,
    native: default_babybear_poseidon2_16(),
    enable: |b| b.enable_poseidon2_perm::<p3_poseidon2_circuit_air::BabyBearD4Width16, _>(
        generate_poseidon2_trace::<Ef<Bb4>, p3_poseidon2_circuit_air::BabyBearD4Width16>,
        default_babybear_poseidon2_16()),
    challenger: CircuitChallenger::<16, 8, Poseidon2Config>::new_babybear());

kit!(P2Kb4, "p2-koalabear-d4-w16", Kb4, KoalaBear, 16, 8, "p2", 4, true,
    native: default_koalabear_poseidon2_16(),
    enable: |b| b.enable_poseidon2_perm::<p3_poseidon2_circuit_air::KoalaBearD4Width16, _>(
        generate_poseidon2_trace::<Ef<Kb4>, p3_poseidon2_circuit_air::KoalaBearD4Width16>,
        default_koalabear_poseidon2_16()),
    challenger: CircuitChallenger::<16, 8, Poseidon2Config>::new_koalabear());

kit!(P2Bb1, "p2-babybear-d1-w16", Bb1, BabyBear, 16, 8, "p2", 1, true,
    native: default_babybear_poseidon2_16(),
    enable: |b| b.enable_poseidon2_perm_base::<p3_circuit::ops::BabyBearD1Width16, _>(
        generate_poseidon2_trace::<BabyBear, p3_circuit::ops::BabyBearD1Width16>,
        default_babybear_poseidon2_16()),
    challenger: CircuitChallenger::<16, 8, Poseidon2Config>::new_babybear_base());

kit!(P2Kb1, "p2-koalabear-d1-w16", Kb1, KoalaBear, 16, 8, "p2", 1, true,
    native: default_koalabear_poseidon2_16(),
    enable: |b| b.enable_poseidon2_perm_base::<p3_circuit::ops::KoalaBearD1Width16, _>(
        generate_poseidon2_trace::<KoalaBear, p3_circuit::ops::KoalaBearD1Width16>,
        default_koalabear_poseidon2_16()),
    challenger: CircuitChallenger::<16, 8, Poseidon2Config>::new_koalabear_base());

kit!(P2Kb5, "p2-koalabear-d1-w16-quintic", Kb5, KoalaBear, 16, 8, "p2", 1, true,
    native: default_koalabear_poseidon2_16(),
    enable: |b| b.enable_poseidon2_perm_base::<p3_circuit::ops::KoalaBearD1Width16, _>(
        generate_poseidon2_trace::<Ef<Kb5>, p3_circuit::ops::KoalaBearD1Width16>,
        LiftPermToQuintic::<KoalaBear, _, 16>::new(default_koalabear_poseidon2_16())),
    challenger: CircuitChallenger::<16, 8, Poseidon2Config>::new_koalabear_base());

kit!(P2Gl2, "p2-goldilocks-d2-w8", Gl2, Goldilocks, 8, 4, "p2", 2, true,
    native: gl_poseidon2_8(),
    enable: |b| b.enable_poseidon2_perm_width_8::<p3_circuit::ops::GoldilocksD2Width8, _>(
        generate_poseidon2_trace::<Ef<Gl2>, p3_circuit::ops::GoldilocksD2Width8>,
        gl_poseidon2_8()),
    challenger: CircuitChallenger::<8, 4, Poseidon2Config>::new_goldilocks());

kit!(P1Bb1, "p1-babybear-d1-w16", Bb1, BabyBear, 16, 8, "p1", 1, true,
    native: default_babybear_poseidon1_16(),
    enable: |b| b.enable_poseidon1_perm_base::<p1::BabyBearD1Width16, _>(
        generate_poseidon1_trace::<BabyBear, p1::BabyBearD1Width16>,
        default_babybear_poseidon1_16()),
    challenger: CircuitChallenger::<16, 8, Poseidon1Config>::new_babybear_poseidon1_base());

kit!(P1Kb1, "p1-koalabear-d1-w16", Kb1, KoalaBear, 16, 8, "p1", 1, true,
    native: default_koalabear_poseidon1_16(),
    enable: |b| b.enable_poseidon1_perm_base::<p1::KoalaBearD1Width16, _>(
        generate_poseidon1_trace::<KoalaBear, p1::KoalaBearD1Width16>,
        default_koalabear_poseidon1_16()),
    challenger: CircuitChallenger::<16, 8, Poseidon1Config>::new_koalabear_poseidon1_base());

kit!(P1Kb5, "p1-koalabear-d1-w16-quintic", Kb5, KoalaBear, 16, 8, "p1", 1, true,
    native: default_koalabear_poseidon1_16(),
    enable: |b| b.enable_poseidon1_perm_base::<p1::KoalaBearD1Width16, _>(
        generate_poseidon1_trace::<Ef<Kb5>, p1::KoalaBearD1Width16>,
        LiftPermToQuintic::<KoalaBear, _, 16>::new(default_koalabear_poseidon1_16())),
    challenger: CircuitChallenger::<16, 8, Poseidon1Config>::new_koalabear_poseidon1_base());

kit!(P1Bb4, "p1-babybear-d4-w16", Bb4, BabyBear, 16, 8, "p1", 4, true,
    native: default_babybear_poseidon1_16(),
    enable: |b| b.enable_poseidon1_perm::<p1::BabyBearD4Width16, _>(
        generate_poseidon1_trace::<Ef<Bb4>, p1::BabyBearD4Width16>,
        default_babybear_poseidon1_16()),
    challenger: CircuitChallenger::<16, 8, Poseidon1Config>::new(Poseidon1Config::BABY_BEAR_D4_W16));

kit!(P1Kb4, "p1-koalabear-d4-w16", Kb4, KoalaBear, 16, 8, "p1", 4, true,
    native: default_koalabear_poseidon1_16(),
    enable: |b| b.enable_poseidon1_perm::<p1::KoalaBearD4Width16, _>(
        generate_poseidon1_trace::<Ef<Kb4>, p1::KoalaBearD4Width16>,
        default_koalabear_poseidon1_16()),
    challenger: CircuitChallenger::<16, 8, Poseidon1Config>::new(Poseidon1Config::KOALA_BEAR_D4_W16));

kit!(P1Gl2, "p1-goldilocks-d2-w8", Gl2, Goldilocks, 8, 4, "p1", 2, true,
    native: default_goldilocks_poseidon1_8(),
    enable: |b| b.enable_poseidon1_perm_width_8::<p1::GoldilocksD2Width8, _>(
        generate_poseidon1_trace::<Ef<Gl2>, p1::GoldilocksD2Width8>,
        default_goldilocks_poseidon1_8()),
    challenger: CircuitChallenger::<8, 4, Poseidon1Config>::new_goldilocks_poseidon1());

// Base (D=1) permutation under a quartic challenge field: documented as supported in
// `challenger_perm.rs` ("base width-16 Poseidon2 with d()==1 can pair with a quartic or quintic
// challenge") but not instantiated by the repo's tests, which only lift to the quintic field.
kit!(P2Bb4Lift, "p2-babybear-d1-w16-quartic", Bb4, BabyBear, 16, 8, "p2", 1, false,
    native: default_babybear_poseidon2_16(),
    enable: |b| b.enable_poseidon2_perm_base::<p3_circuit::ops::BabyBearD1Width16, _>(
        generate_poseidon2_trace::<Ef<Bb4>, p3_circuit::ops::BabyBearD1Width16>,
        LiftPerm::<BabyBear, Ef<Bb4>, _, 16>::new(default_babybear_poseidon2_16())),
    challenger: CircuitChallenger::<16, 8, Poseidon2Config>::new_babybear_base());

kit!(P2Kb4Lift, "p2-koalabear-d1-w16-quartic", Kb4, KoalaBear, 16, 8, "p2", 1, false,
    native: default_koalabear_poseidon2_16(),
    enable: |b| b.enable_poseidon2_perm_base::<p3_circuit::ops::KoalaBearD1Width16, _>(
        generate_poseidon2_trace::<Ef<Kb4>, p3_circuit::ops::KoalaBearD1Width16>,
        LiftPerm::<KoalaBear, Ef<Kb4>, _, 16>::new(default_koalabear_poseidon2_16())),
    challenger: CircuitChallenger::<16, 8, Poseidon2Config>::new_koalabear_base());

pub const KIT_NAMES: [&str; 14] = [
    P2Bb4::NAME,
    P2Kb4::NAME,
    P2Bb1::NAME,
    P2Kb1::NAME,
    P2Kb5::NAME,
    P2Gl2::NAME,
    P1Bb1::NAME,
    P1Kb1::NAME,
    P1Kb5::NAME,
    P1Bb4::NAME,
    P1Kb4::NAME,
    P1Gl2::NAME,
    P2Bb4Lift::NAME,
    P2Kb4Lift::NAME,
];

/// Generic code that wants to run under the configuration named by an index.
pub trait KitVisitor {
    type Out;
    fn visit<K: Kit>(self) -> Self::Out;
}

pub fn with_kit<V: KitVisitor>(cfg: u8, v: V) -> V::Out {
    match cfg as usize % KIT_NAMES.len() {
        0 => v.visit::<P2Bb4>(),
        1 => v.visit::<P2Kb4>(),
        2 => v.visit::<P2Bb1>(),
        3 => v.visit::<P2Kb1>(),
        4 => v.visit::<P2Kb5>(),
        5 => v.visit::<P2Gl2>(),
        6 => v.visit::<P1Bb1>(),
        7 => v.visit::<P1Kb1>(),
        8 => v.visit::<P1Kb5>(),
        9 => v.visit::<P1Bb4>(),
        10 => v.visit::<P1Kb4>(),
        11 => v.visit::<P1Gl2>(),
        12 => v.visit::<P2Bb4Lift>(),
        _ => v.visit::<P2Kb4Lift>(),
    }
}

// ---------------------------------------------------------------------------------------------
// Native interpretation
// ---------------------------------------------------------------------------------------------

#[derive(Clone, Copy, Debug, PartialEq, Eq)]
pub enum SampleKind {
    Base,
    Ext,
    Bit,
}

impl SampleKind {
    pub fn name(self) -> &'static str {
        match self {
            SampleKind::Base => "base",
            SampleKind::Ext => "ext",
            SampleKind::Bit => "bit",
        }
    }
}

#[derive(Clone, Debug)]
pub struct NSample<EF> {
    /// index of the step that produced it
    pub step: usize,
    pub kind: SampleKind,
    /// the model's value (bits as 0 / 1, base values embedded)
    pub value: EF,
}

#[derive(Clone, Debug)]
pub struct NObserved<EF> {
    pub step: usize,
    /// observed through `observe_ext` (all `D` coefficients enter the transcript)
    pub is_ext: bool,
    /// PoW witness
    pub is_pow: bool,
    pub value: EF,
}

#[derive(Clone, Debug)]
pub struct NPow {
    pub step: usize,
    pub bits: usize,
    /// the model's `check_witness` verdict
    pub ok: bool,
    /// the bits the model sampled for the check (`sample_bits(bits)`), 0 when `bits == 0`
    pub sampled: usize,
}

/// Everything the model produced for a resolved history.
#[derive(Clone, Debug)]
pub struct NativeOut<EF> {
    /// one entry per target the circuit challenger returns, in order
    pub samples: Vec<NSample<EF>>,
    /// one entry per public input of the circuit, in allocation order
    pub observed: Vec<NObserved<EF>>,
    pub pows: Vec<NPow>,
    pub all_pow_ok: bool,
    /// number of duplexings (permutation calls) of the model
    pub duplexings: usize,
    /// `(pending inputs, remaining outputs)` of the model before each base-element sample
    pub positions: Vec<(usize, usize)>,
}

impl<EF> Default for NativeOut<EF> {
    fn default() -> Self {
        Self {
            samples: vec![],
            observed: vec![],
            pows: vec![],
            all_pow_ok: true,
            duplexings: 0,
            positions: vec![],
        }
    }
}

pub fn max_sample_bits<BF: PrimeField64>() -> usize {
    // native `sample_bits` requires bits < 64 and (1 << bits) < ORDER
    (0..64usize)
        .rev()
        .find(|&b| (1u64 << b) < BF::ORDER_U64)
        .unwrap_or(0)
}

fn ef_of<K: Kit>(coeffs: &[u64]) -> EfOf<K> {
    let d = <K::F as Fc>::D;
    let mut v: Vec<u64> = coeffs.iter().copied().take(d).collect();
    v.resize(d, 0);
    // `Fc::ef` reduces with from_u64
    <K::F as Fc>::ef(&v)
}

fn canon_ext<K: Kit>(coeffs: &[u64]) -> Vec<u64> {
    <K::F as Fc>::coeffs(&ef_of::<K>(coeffs))
}

fn bf_of<K: Kit>(v: u64) -> BfOf<K> {
    BfOf::<K>::from_u64(v)
}

fn embed<K: Kit>(v: BfOf<K>) -> EfOf<K> {
    EfOf::<K>::from(v)
}

fn coeff0<K: Kit>(v: &EfOf<K>) -> BfOf<K> {
    <EfOf<K> as BasedVectorSpace<BfOf<K>>>::as_basis_coefficients_slice(v)[0]
}

/// The model run: applies resolved steps to the native challenger and records its outputs.
pub struct NativeRun<K: Kit> {
    pub ch: Box<dyn NativeCh<BfOf<K>, EfOf<K>>>,
    pub out: NativeOut<EfOf<K>>,
    /// values to use for the public-input observations instead of the ones written in the
    /// steps (C06: the values as they appear in a forged assignment), consumed in order
    pub overrides: Option<std::collections::VecDeque<EfOf<K>>>,
}

impl<K: Kit> Default for NativeRun<K> {
    fn default() -> Self {
        Self::new()
    }
}

impl<K: Kit> NativeRun<K> {
    pub fn new() -> Self {
        Self {
            ch: K::native(),
            out: NativeOut::default(),
            overrides: None,
        }
    }

    // --- bookkeeping of buffer positions (statistics only; sanity-checked against the model) --
    fn note_observe(&mut self, n: usize) -> usize {
        let before = self.ch.in_len();
        self.out.duplexings += (before + n) / K::RATE;
        (before + n) % K::RATE
    }
    fn note_samples(&mut self, n: usize) -> (usize, usize) {
        let (mut i, mut o) = (self.ch.in_len(), self.ch.out_len());
        for _ in 0..n {
            self.out.positions.push((i, o));
            if i > 0 || o == 0 {
                self.out.duplexings += 1;
                i = 0;
                o = K::RATE;
            }
            o -= 1;
        }
        (i, o)
    }
    fn check_lens(&self, want_in: usize, want_out: Option<usize>) {
        assert_eq!(self.ch.in_len(), want_in, "harness: model input-buffer bookkeeping");
        if let Some(o) = want_out {
            assert_eq!(self.ch.out_len(), o, "harness: model output-buffer bookkeeping");
        }
    }

    fn take(&mut self, dflt: EfOf<K>) -> EfOf<K> {
        match self.overrides.as_mut() {
            Some(q) => q.pop_front().unwrap_or(dflt),
            None => dflt,
        }
    }

    pub fn apply(&mut self, idx: usize, step: &Step) {
        match step {
            Step::ObserveBase(v) => {
                let e = self.take(embed::<K>(bf_of::<K>(*v)));
                let want = self.note_observe(1);
                self.ch.observe(coeff0::<K>(&e));
                self.check_lens(want, None);
                self.out.observed.push(NObserved { step: idx, is_ext: false, is_pow: false, value: e });
            }
            Step::ObserveSlice(vs) => {
                let es: Vec<EfOf<K>> = vs.iter().map(|v| self.take(embed::<K>(bf_of::<K>(*v)))).collect();
                let want = self.note_observe(es.len());
                let bs: Vec<BfOf<K>> = es.iter().map(coeff0::<K>).collect();
                self.ch.observe_slice(&bs);
                self.check_lens(want, None);
                for e in es {
                    self.out.observed.push(NObserved { step: idx, is_ext: false, is_pow: false, value: e });
                }
            }
            Step::ObserveExt(c) => {
                let e = self.take(ef_of::<K>(c));
                let want = self.note_observe(<K::F as Fc>::D);
                self.ch.observe_ext(e);
                self.check_lens(want, None);
                self.out.observed.push(NObserved { step: idx, is_ext: true, is_pow: false, value: e });
            }
            Step::ObserveExtSlice(cs) => {
                let es: Vec<EfOf<K>> = cs.iter().map(|c| self.take(ef_of::<K>(c))).collect();
                let want = self.note_observe(<K::F as Fc>::D * es.len());
                self.ch.observe_ext_slice(&es);
                self.check_lens(want, None);
                for e in es {
                    self.out.observed.push(NObserved { step: idx, is_ext: true, is_pow: false, value: e });
                }
            }
            Step::ObservePrev { sample, as_ext } => {
                let v = self.out.samples[*sample].value;
                if *as_ext {
                    let want = self.note_observe(<K::F as Fc>::D);
                    self.ch.observe_ext(v);
                    self.check_lens(want, None);
                } else {
                    let want = self.note_observe(1);
                    self.ch.observe(coeff0::<K>(&v));
                    self.check_lens(want, None);
                }
            }
            Step::SampleBase => {
                let (i, o) = self.note_samples(1);
                let v = self.ch.sample();
                self.check_lens(i, Some(o));
                self.out.samples.push(NSample { step: idx, kind: SampleKind::Base, value: embed::<K>(v) });
            }
            Step::SampleExt => self.sample_ext(idx),
            Step::SampleExtVec(n) => {
                for _ in 0..*n {
                    self.sample_ext(idx);
                }
            }
            Step::SampleBits(k) => {
                let (i, o) = self.note_samples(1);
                let v = self.ch.sample_bits(*k);
                self.check_lens(i, Some(o));
                for j in 0..*k {
                    let bit = ((v >> j) & 1) as u64;
                    self.out.samples.push(NSample {
                        step: idx,
                        kind: SampleKind::Bit,
                        value: embed::<K>(bf_of::<K>(bit)),
                    });
                }
            }
            Step::Pow { bits, witness } => {
                let e = self.take(embed::<K>(bf_of::<K>(*witness)));
                let w = coeff0::<K>(&e);
                // the public input exists in the circuit whatever `bits` is
                self.out.observed.push(NObserved { step: idx, is_ext: false, is_pow: true, value: e });
                if *bits == 0 {
                    let ok = self.ch.check_witness(0, w);
                    assert!(ok, "model: zero-bit PoW is always accepted");
                    self.out.pows.push(NPow { step: idx, bits: 0, ok, sampled: 0 });
                    return;
                }
                // what the check samples, learnt on a fork (check_witness only returns a bool)
                let sampled = {
                    let mut f = self.ch.fork();
                    f.observe(w);
                    f.sample_bits(*bits)
                };
                let want_in = self.note_observe(1);
                // after the observe the model has `want_in` pending inputs and no outputs
                let had_pending = want_in > 0;
                self.out.positions.push((want_in, if had_pending { 0 } else { K::RATE }));
                if had_pending {
                    self.out.duplexings += 1;
                }
                let ok = self.ch.check_witness(*bits, w);
                assert_eq!(ok, sampled == 0, "harness: fork and model disagree on the PoW bits");
                self.check_lens(0, Some(K::RATE - 1));
                self.out.all_pow_ok &= ok;
                self.out.pows.push(NPow { step: idx, bits: *bits, ok, sampled });
            }
            Step::Clear => {
                self.ch = self.ch.fresh();
            }
        }
    }

    fn sample_ext(&mut self, idx: usize) {
        let (i, o) = self.note_samples(<K::F as Fc>::D);
        let v = self.ch.sample_ext();
        self.check_lens(i, Some(o));
        self.out.samples.push(NSample { step: idx, kind: SampleKind::Ext, value: v });
    }
}

/// Number of grinding candidates tried per PoW step.
const GRIND_LIMIT: u64 = 1 << 14;

/// Resolve a generated history into concrete steps, running the model alongside (PoW witnesses
/// are ground against the model's state at that point).
pub fn resolve<K: Kit>(h: &History) -> (Vec<Step>, NativeOut<EfOf<K>>) {
    let mut run = NativeRun::<K>::new();
    let mut steps: Vec<Step> = Vec::with_capacity(h.ops.len());
    let max_bits = max_sample_bits::<BfOf<K>>();
    let canon = |v: u64| bf_of::<K>(v).as_canonical_u64();
    for op in &h.ops {
        let step = match op {
            ChOp::ObserveBase(v) => Step::ObserveBase(canon(*v)),
            ChOp::ObserveExt(c) => Step::ObserveExt(canon_ext::<K>(c)),
            ChOp::ObserveSlice(vs) => Step::ObserveSlice(vs.iter().map(|v| canon(*v)).collect()),
            ChOp::ObserveExtSlice(cs) => {
                Step::ObserveExtSlice(cs.iter().map(|c| canon_ext::<K>(c)).collect())
            }
            ChOp::ObservePrev { idx, as_ext } => {
                let eligible: Vec<usize> = run
                    .out
                    .samples
                    .iter()
                    .enumerate()
                    .filter(|(_, s)| *as_ext || s.kind != SampleKind::Ext)
                    .map(|(i, _)| i)
                    .collect();
                if eligible.is_empty() {
                    continue;
                }
                Step::ObservePrev {
                    sample: eligible[fw::pick(*idx, eligible.len())],
                    as_ext: *as_ext,
                }
            }
            ChOp::SampleBase => Step::SampleBase,
            ChOp::SampleExt => Step::SampleExt,
            ChOp::SampleExtVec(n) => Step::SampleExtVec(1 + (*n as usize % 3)),
            ChOp::SampleBits(k) => Step::SampleBits(*k as usize % (max_bits + 1)),
            ChOp::CheckPow { bits, want_valid, start } => {
                let bits = *bits as usize % 9;
                let mut witness = canon(*start);
                if bits > 0 {
                    for i in 0..GRIND_LIMIT {
                        let cand = bf_of::<K>(start.wrapping_add(i));
                        let mut f = run.ch.fork();
                        if f.check_witness(bits, cand) == *want_valid {
                            witness = cand.as_canonical_u64();
                            break;
                        }
                    }
                }
                Step::Pow { bits, witness }
            }
            ChOp::Clear => Step::Clear,
        };
        run.apply(steps.len(), &step);
        steps.push(step);
    }
    (steps, run.out)
}

/// Run the model over resolved steps.  With `observed`, the public-input observations take their
/// values from it (in `NativeOut::observed` order) instead of from the steps.
pub fn replay_native<K: Kit>(steps: &[Step], observed: Option<&[EfOf<K>]>) -> NativeOut<EfOf<K>> {
    let mut run = NativeRun::<K>::new();
    run.overrides = observed.map(|o| o.iter().copied().collect());
    for (i, s) in steps.iter().enumerate() {
        run.apply(i, s);
    }
    run.out
}

// ---------------------------------------------------------------------------------------------
// Circuit interpretation
// ---------------------------------------------------------------------------------------------

#[derive(Clone, Copy, Debug, PartialEq, Eq)]
pub enum PowMode {
    /// every PoW step is `check_pow_witness` (the real thing)
    Assert,
    /// PoW steps the model rejects are replaced by their transcript effect
    /// `observe(witness); sample_bits(bits)` with the bits tagged
    TranscriptOnly,
}

/// A history compiled to a circuit (not yet `build()`-ed so that the caller decides how).
pub struct Built<K: Kit> {
    pub builder: CircuitBuilder<EfOf<K>>,
    /// values for `set_public_inputs`, in allocation order
    pub publics: Vec<EfOf<K>>,
    /// public-input targets, aligned with `native.observed`
    pub observed: Vec<ExprId>,
    /// `(sampled target, native value)`, aligned with `native.samples`
    pub samples: Vec<(ExprId, EfOf<K>)>,
    /// `TranscriptOnly` mode: `(bit target, native bit)` of the replaced PoW checks
    pub pow_bits: Vec<(ExprId, EfOf<K>)>,
    /// run() must succeed iff this holds (always true in `TranscriptOnly` mode)
    pub expect_run_ok: bool,
    pub steps: Vec<Step>,
    pub native: NativeOut<EfOf<K>>,
}

/// Drive `CircuitChallenger` over resolved steps.  `Err` = a builder call returned an error.
pub fn build_circuit<K: Kit>(
    steps: &[Step],
    native: &NativeOut<EfOf<K>>,
    recompose: bool,
    coeff_ctl: bool,
    mode: PowMode,
) -> Result<Built<K>, (String, String)> {
    let mut b = K::builder(recompose, coeff_ctl);
    let mut cc = K::challenger();
    let mut publics: Vec<EfOf<K>> = vec![];
    let mut observed: Vec<ExprId> = vec![];
    let mut samples: Vec<(ExprId, EfOf<K>)> = vec![];
    let mut pow_bits: Vec<(ExprId, EfOf<K>)> = vec![];
    let mut next_obs = 0usize;
    let mut next_pow = 0usize;

    macro_rules! public {
        () => {{
            let t = b.public_input();
            let v = native.observed[next_obs].value;
            next_obs += 1;
            publics.push(v);
            observed.push(t);
            t
        }};
    }
    macro_rules! tag {
        ($t:expr) => {{
            let v = native.samples[samples.len()].value;
            samples.push(($t, v));
        }};
    }

    for step in steps {
        match step {
            Step::ObserveBase(_) => {
                let t = public!();
                cc.observe(&mut b, t);
            }
            Step::ObserveSlice(vs) => {
                let ts: Vec<ExprId> = vs.iter().map(|_| public!()).collect();
                cc.observe_slice(&mut b, &ts);
            }
            Step::ObserveExt(_) => {
                let t = public!();
                cc.observe_ext(&mut b, t);
            }
            Step::ObserveExtSlice(cs) => {
                let ts: Vec<ExprId> = cs.iter().map(|_| public!()).collect();
                cc.observe_ext_slice(&mut b, &ts);
            }
            Step::ObservePrev { sample, as_ext } => {
                let t = samples[*sample].0;
                if *as_ext {
                    cc.observe_ext(&mut b, t);
                } else {
                    cc.observe(&mut b, t);
                }
            }
            Step::SampleBase => {
                let t = cc.sample(&mut b);
                tag!(t);
            }
            Step::SampleExt => {
                let t = cc.sample_ext(&mut b);
                tag!(t);
            }
            Step::SampleExtVec(n) => {
                for t in cc.sample_ext_vec(&mut b, *n) {
                    tag!(t);
                }
            }
            Step::SampleBits(k) => {
                let bits = cc
                    .sample_bits(&mut b, *k)
                    .map_err(|e| ("sample_bits".to_string(), format!("{e:?}")))?;
                if bits.len() != *k {
                    return Err((
                        "sample_bits-length".into(),
                        format!("sample_bits({k}) returned {} targets", bits.len()),
                    ));
                }
                for t in bits {
                    tag!(t);
                }
            }
            Step::Pow { bits, .. } => {
                let t = public!();
                let p = &native.pows[next_pow];
                next_pow += 1;
                if mode == PowMode::TranscriptOnly && !p.ok {
                    cc.observe(&mut b, t);
                    let bs = cc
                        .sample_bits(&mut b, *bits)
                        .map_err(|e| ("sample_bits".to_string(), format!("{e:?}")))?;
                    for (j, bt) in bs.into_iter().enumerate() {
                        let bit = ((p.sampled >> j) & 1) as u64;
                        pow_bits.push((bt, embed::<K>(bf_of::<K>(bit))));
                    }
                } else {
                    cc.check_pow_witness(&mut b, *bits, t)
                        .map_err(|e| ("check_pow_witness".to_string(), format!("{e:?}")))?;
                }
            }
            Step::Clear => cc.clear(&mut b),
        }
    }
    assert_eq!(samples.len(), native.samples.len(), "harness: sample alignment");
    assert_eq!(next_obs, native.observed.len(), "harness: observation alignment");
    Ok(Built {
        builder: b,
        publics,
        observed,
        samples,
        pow_bits,
        expect_run_ok: mode == PowMode::TranscriptOnly || native.all_pow_ok,
        steps: steps.to_vec(),
        native: native.clone(),
    })
}

/// History → circuit + public inputs + `(sampled target, native value)` list.
pub fn build_from_history<K: Kit>(h: &History, mode: PowMode) -> Result<Built<K>, (String, String)> {
    let (steps, native) = resolve::<K>(h);
    build_circuit::<K>(&steps, &native, h.recompose, h.coeff_ctl, mode)
}

// ---------------------------------------------------------------------------------------------
// Oracle
// ---------------------------------------------------------------------------------------------

pub const RULE: &str = "random histories (0-60 ops; thorough up to 300) of observe / observe_ext / observe_slice / \
observe_ext_slice / re-observe a sampled target / sample / sample_ext / sample_ext_vec / sample_bits(k) / \
check_pow_witness(valid and invalid, witnesses ground natively) / clear, over 14 challenger configurations \
(Poseidon2 and Poseidon1: BabyBear & KoalaBear D4-w16, D1-w16 with EF=F, KoalaBear D1-w16 under the quintic field, \
Goldilocks D2-w8; plus D1-w16 under the quartic field) x recompose tables on/off x coeff-ctl links on/off; model = \
native DuplexChallenger; non-trivial = the model performed >= 2 duplexings AND some sample was taken at a buffer \
position not aligned to the rate (1..RATE-1 pending inputs, or an output buffer that is partially drained); distinct \
on (configuration, flags, op-kind sequence)";

fn err_name(e: &impl core::fmt::Debug) -> String {
    let s = format!("{e:?}");
    s.split(|c: char| !c.is_alphanumeric())
        .find(|w| !w.is_empty())
        .unwrap_or("Err")
        .to_string()
}

fn bucket(n: usize) -> &'static str {
    match n {
        0 => "0",
        1 => "1",
        2..=3 => "2-3",
        4..=7 => "4-7",
        8..=15 => "8-15",
        _ => "16+",
    }
}

fn len_bucket(n: usize) -> &'static str {
    match n {
        0 => "0",
        1..=5 => "1-5",
        6..=20 => "6-20",
        21..=60 => "21-60",
        _ => "61+",
    }
}

enum RunOutcome {
    /// run() Ok and every tagged target equals the model
    Equal,
    /// run() failed
    RunErr(String, String),
    /// first mismatch
    Mismatch(String, String),
    Other(String, String),
}

fn run_and_compare<K: Kit>(built: Built<K>) -> RunOutcome {
    let Built {
        builder,
        publics,
        samples,
        pow_bits,
        native,
        steps,
        ..
    } = built;
    let circuit = match builder.build() {
        Ok(c) => c,
        Err(e) => return RunOutcome::Other(format!("C05/build-error:{}", err_name(&e)), format!("{e:?}")),
    };
    let mut runner = circuit.runner();
    if let Err(e) = runner.set_public_inputs(&publics) {
        return RunOutcome::Other(
            format!("C05/set-public-inputs-failed:{}", err_name(&e)),
            format!("{e:?}"),
        );
    }
    let traces = match runner.run() {
        Ok(t) => t,
        Err(e) => return RunOutcome::RunErr(err_name(&e), format!("{e:?}")),
    };
    let read = |t: &ExprId| -> Option<EfOf<K>> {
        circuit
            .expr_to_widx
            .get(t)
            .and_then(|w| traces.witness_trace.get_value(*w).copied())
    };
    for (i, (t, want)) in samples.iter().enumerate() {
        let ns = &native.samples[i];
        match read(t) {
            None => {
                return RunOutcome::Other(
                    format!("C05/no-witness-for-sample:{}", ns.kind.name()),
                    format!("sample #{i} (step {} {:?}) has no witness slot", ns.step, steps[ns.step]),
                );
            }
            Some(got) if got != *want => {
                return RunOutcome::Mismatch(
                    format!("C05/sample-mismatch:{}:{}", ns.kind.name(), K::path()),
                    format!(
                        "[{}] sample #{i} (kind {}, step {} = {:?}): circuit {:?} != native {:?}; the model performed {} duplexings over the whole history",
                        K::NAME,
                        ns.kind.name(),
                        ns.step,
                        steps[ns.step],
                        <K::F as Fc>::coeffs(&got),
                        <K::F as Fc>::coeffs(want),
                        native.duplexings
                    ),
                );
            }
            _ => {}
        }
    }
    for (j, (t, want)) in pow_bits.iter().enumerate() {
        match read(t) {
            Some(got) if got == *want => {}
            got => {
                return RunOutcome::Mismatch(
                    format!("C05/pow-bits-mismatch:{}", K::path()),
                    format!(
                        "[{}] PoW bit #{j}: circuit {:?} != native {:?}",
                        K::NAME,
                        got.map(|g| <K::F as Fc>::coeffs(&g)),
                        <K::F as Fc>::coeffs(want)
                    ),
                );
            }
        }
    }
    RunOutcome::Equal
}

fn fail(mut rep: Report, sig: String, msg: String) -> Report {
    rep.verdict = Verdict::Fail { sig, msg };
    rep.nontrivial = true;
    rep
}

pub fn check<K: Kit>(h: &History) -> Report {
    let (steps, native) = resolve::<K>(h);
    let rate = K::RATE;

    // ---- evidence -----------------------------------------------------------------------------
    let unaligned = native
        .positions
        .iter()
        .any(|&(i, o)| (i % rate != 0) || (o > 0 && o < rate));
    let nontrivial = native.duplexings >= 2 && unaligned;
    let kinds: Vec<&'static str> = h.ops.iter().map(|o| o.kind()).collect();
    let mut classes: BTreeSet<String> = BTreeSet::new();
    classes.insert(format!("cfg:{}", K::NAME));
    classes.insert(format!("path:{}", K::path()));
    classes.insert(
        if K::IN_REPO {
            "cfg-origin:instantiated-by-repo-tests-or-examples"
        } else {
            "cfg-origin:documented-only(D1-perm-under-quartic)"
        }
        .to_string(),
    );
    classes.insert(format!("recompose:{}", if h.recompose { "on" } else { "off" }));
    classes.insert(format!("coeff-ctl:{}", if h.coeff_ctl { "on" } else { "off" }));
    classes.insert(format!("len:{}", len_bucket(h.ops.len())));
    classes.insert(format!("duplexings:{}", bucket(native.duplexings)));
    classes.insert(format!("samples:{}", bucket(native.samples.len())));
    for k in &kinds {
        classes.insert(format!("op:{k}"));
    }
    for &(i, o) in &native.positions {
        // buffer position of the model at a base-element sample
        if i > 0 {
            classes.insert(format!("pos:R{rate}:pending-in={i}"));
        } else {
            classes.insert(format!("pos:R{rate}:out-left={o}"));
        }
    }
    for p in &native.pows {
        classes.insert(
            if p.bits == 0 {
                "pow:zero-bits(no-op)"
            } else if p.ok {
                "pow:valid"
            } else {
                "pow:invalid"
            }
            .to_string(),
        );
    }
    if steps.iter().any(|s| matches!(s, Step::SampleBits(0))) {
        classes.insert("bits:k=0".into());
    }
    if steps
        .iter()
        .any(|s| matches!(s, Step::SampleBits(k) if *k == max_sample_bits::<BfOf<K>>()))
    {
        classes.insert("bits:k=max".into());
    }
    let mut after_clear = false;
    for s in &steps {
        match s {
            Step::Clear => after_clear = true,
            Step::SampleBase | Step::SampleExt | Step::SampleExtVec(_) | Step::SampleBits(_) if after_clear => {
                classes.insert("sample-after-clear".into());
            }
            _ => {}
        }
    }
    let rep = Report::pass()
        .nontrivial(nontrivial)
        .key(hash_of(&(h.cfg as usize % KIT_NAMES.len(), h.recompose, h.coeff_ctl, &kinds)))
        .classes(classes);

    // ---- the circuit as the verifier would build it -------------------------------------------
    let built = match build_circuit::<K>(&steps, &native, h.recompose, h.coeff_ctl, PowMode::Assert) {
        Ok(b) => b,
        Err((op, msg)) => return fail(rep, format!("C05/builder-error:{op}"), msg),
    };
    let expect_ok = built.expect_run_ok;
    match run_and_compare::<K>(built) {
        RunOutcome::Equal => {
            if expect_ok {
                return rep.class("outcome:run-ok,all-samples-equal");
            }
            let bad: Vec<String> = native
                .pows
                .iter()
                .filter(|p| !p.ok)
                .map(|p| format!("step {} bits {} sampled {:#b}", p.step, p.bits, p.sampled))
                .collect();
            fail(
                rep,
                format!("C05/invalid-pow-accepted:{}", K::path()),
                format!("[{}] native check_witness = false for {bad:?} but run() = Ok", K::NAME),
            )
        }
        RunOutcome::Mismatch(sig, msg) | RunOutcome::Other(sig, msg) => fail(rep, sig, msg),
        RunOutcome::RunErr(name, msg) => {
            if expect_ok {
                return fail(
                    rep,
                    format!("C05/valid-history-run-failed:{name}:{}", K::path()),
                    format!("[{}] every native check_witness = true but run() = {msg}", K::NAME),
                );
            }
            // Rejected as it must be.  Judge the transcript itself on the circuit in which the
            // rejected checks are replaced by observe + sample_bits.
            let built2 = match build_circuit::<K>(
                &steps,
                &native,
                h.recompose,
                h.coeff_ctl,
                PowMode::TranscriptOnly,
            ) {
                Ok(b) => b,
                Err((op, msg)) => return fail(rep, format!("C05/builder-error:{op}"), msg),
            };
            match run_and_compare::<K>(built2) {
                RunOutcome::Equal => rep.class("outcome:invalid-pow-rejected,transcript-equal-without-the-assert"),
                RunOutcome::Mismatch(sig, msg) | RunOutcome::Other(sig, msg) => {
                    fail(rep, sig, format!("(invalid-PoW history, assert-free variant) {msg}"))
                }
                RunOutcome::RunErr(name, msg) => fail(
                    rep,
                    format!("C05/assert-free-variant-run-failed:{name}:{}", K::path()),
                    format!("[{}] invalid PoW replaced by observe+sample_bits, but run() = {msg}", K::NAME),
                ),
            }
        }
    }
}

struct CheckV<'a>(&'a History);
impl KitVisitor for CheckV<'_> {
    type Out = Report;
    fn visit<K: Kit>(self) -> Report {
        check::<K>(self.0)
    }
}

pub fn oracle(h: &History) -> Report {
    with_kit(h.cfg, CheckV(h))
}

// ---------------------------------------------------------------------------------------------
// Round trip through the exported API, the way C06 uses it: compile the history with
// `build_from_history`, run, read the *observed* targets back from the witness table, recompute
// the native transcript from those values with `replay_native`, and compare with the sampled
// slots of the witness table.
// ---------------------------------------------------------------------------------------------

pub const RULE_ROUNDTRIP: &str = "same histories; build_from_history (rejected PoW checks replaced by their transcript effect) -> run -> observed targets read back from the witness table -> replay_native over those values -> must equal both the model outputs of resolve() and the sampled slots of the witness table; same non-trivial rule";

pub fn check_roundtrip<K: Kit>(h: &History) -> Report {
    let built = match build_from_history::<K>(h, PowMode::TranscriptOnly) {
        Ok(b) => b,
        Err((op, msg)) => return Report::fail(format!("C05/builder-error:{op}"), msg),
    };
    let rate = K::RATE;
    let unaligned = built
        .native
        .positions
        .iter()
        .any(|&(i, o)| (i % rate != 0) || (o > 0 && o < rate));
    let kinds: Vec<&'static str> = h.ops.iter().map(|o| o.kind()).collect();
    let rep = Report::pass()
        .nontrivial(built.native.duplexings >= 2 && unaligned)
        .key(hash_of(&(h.cfg as usize % KIT_NAMES.len(), h.recompose, h.coeff_ctl, &kinds)))
        .class(format!("cfg:{}", K::NAME));
    let Built {
        builder,
        publics,
        observed,
        samples,
        steps,
        native,
        ..
    } = built;
    let circuit = match builder.build() {
        Ok(c) => c,
        Err(e) => return fail(rep, format!("C05/build-error:{}", err_name(&e)), format!("{e:?}")),
    };
    let mut runner = circuit.runner();
    if let Err(e) = runner.set_public_inputs(&publics) {
        return fail(rep, format!("C05/set-public-inputs-failed:{}", err_name(&e)), format!("{e:?}"));
    }
    let traces = match runner.run() {
        Ok(t) => t,
        Err(e) => {
            return fail(
                rep,
                format!("C05/assert-free-variant-run-failed:{}:{}", err_name(&e), K::path()),
                format!("[{}] {e:?}", K::NAME),
            );
        }
    };
    let read = |t: &ExprId| -> Option<EfOf<K>> {
        circuit
            .expr_to_widx
            .get(t)
            .and_then(|w| traces.witness_trace.get_value(*w).copied())
    };
    let mut obs_vals = Vec::with_capacity(observed.len());
    for (i, t) in observed.iter().enumerate() {
        match read(t) {
            Some(v) if v == native.observed[i].value => obs_vals.push(v),
            got => {
                return fail(
                    rep,
                    "C05/observed-slot-differs-from-public-input".into(),
                    format!(
                        "[{}] observation #{i}: witness {:?} != supplied {:?}",
                        K::NAME,
                        got.map(|g| <K::F as Fc>::coeffs(&g)),
                        <K::F as Fc>::coeffs(&native.observed[i].value)
                    ),
                );
            }
        }
    }
    let again = replay_native::<K>(&steps, Some(&obs_vals));
    if again.samples.len() != native.samples.len()
        || again
            .samples
            .iter()
            .zip(&native.samples)
            .any(|(a, b)| a.value != b.value || a.kind != b.kind)
        || again.all_pow_ok != native.all_pow_ok
        || again.duplexings != native.duplexings
    {
        return fail(
            rep,
            "C05/harness:replay_native-not-reproducible".into(),
            format!("[{}] replay_native disagrees with resolve on the same steps", K::NAME),
        );
    }
    for (i, (t, _)) in samples.iter().enumerate() {
        let got = read(t);
        if got != Some(again.samples[i].value) {
            return fail(
                rep,
                format!("C05/sample-mismatch:{}:{}", again.samples[i].kind.name(), K::path()),
                format!(
                    "[{}] (round trip) sample #{i}: circuit {:?} != native recomputed from the observed slots {:?}",
                    K::NAME,
                    got.map(|g| <K::F as Fc>::coeffs(&g)),
                    <K::F as Fc>::coeffs(&again.samples[i].value)
                ),
            );
        }
    }
    rep.class("outcome:round-trip-equal")
}

struct RoundtripV<'a>(&'a History);
impl KitVisitor for RoundtripV<'_> {
    type Out = Report;
    fn visit<K: Kit>(self) -> Report {
        check_roundtrip::<K>(self.0)
    }
}

pub fn oracle_roundtrip(h: &History) -> Report {
    with_kit(h.cfg, RoundtripV(h))
}

// ---------------------------------------------------------------------------------------------
// Strategy
// ---------------------------------------------------------------------------------------------

#[derive(Clone, Debug)]
pub struct GenOpts {
    pub min_len: usize,
    pub max_len: usize,
    /// configuration indices to draw from
    pub cfgs: Vec<u8>,
    /// include invalid PoW witnesses
    pub invalid_pow: bool,
}

impl Default for GenOpts {
    fn default() -> Self {
        Self {
            min_len: 0,
            max_len: 60,
            cfgs: (0..KIT_NAMES.len() as u8).collect(),
            invalid_pow: true,
        }
    }
}

fn value() -> impl Strategy<Value = u64> {
    prop_oneof![
        2 => 0u64..4,
        6 => any::<u64>(),
        1 => (0u64..3).prop_map(|k| u64::MAX - k),
    ]
}

fn ext_value() -> impl Strategy<Value = Vec<u64>> {
    prop_oneof![
        4 => proptest::collection::vec(value(), 5),
        // base-field value observed as an extension element (what batch-STARK does)
        1 => value().prop_map(|v| vec![v, 0, 0, 0, 0]),
    ]
}

pub fn op_strategy() -> impl Strategy<Value = ChOp> {
    prop_oneof![
        6 => value().prop_map(ChOp::ObserveBase),
        3 => ext_value().prop_map(ChOp::ObserveExt),
        3 => proptest::collection::vec(value(), 1..=17).prop_map(ChOp::ObserveSlice),
        1 => proptest::collection::vec(ext_value(), 1..=4).prop_map(ChOp::ObserveExtSlice),
        1 => (any::<u16>(), any::<bool>()).prop_map(|(idx, as_ext)| ChOp::ObservePrev { idx, as_ext }),
        6 => Just(ChOp::SampleBase),
        3 => Just(ChOp::SampleExt),
        1 => (0u8..3).prop_map(ChOp::SampleExtVec),
        3 => any::<u8>().prop_map(ChOp::SampleBits),
        2 => (prop_oneof![1 => Just(0u8), 9 => 1u8..9], any::<bool>(), any::<u64>())
            .prop_map(|(bits, want_valid, start)| ChOp::CheckPow { bits, want_valid, start }),
        1 => Just(ChOp::Clear),
    ]
}

/// Histories.  Whether a history may contain rejected PoW witnesses is decided once per history
/// (1 in 4 when `opts.invalid_pow`): a rejected check makes `run()` fail, after which the real
/// `check_pow_witness` circuit can only be judged by its verdict, so most histories keep every
/// witness valid and are compared sample by sample on the circuit the verifier would build.
pub fn history_strategy(opts: GenOpts) -> impl Strategy<Value = History> {
    let cfgs = opts.cfgs.clone();
    let allow_invalid = if opts.invalid_pow {
        prop_oneof![3 => Just(false), 1 => Just(true)].boxed()
    } else {
        Just(false).boxed()
    };
    (
        proptest::sample::select(cfgs),
        any::<bool>(),
        prop_oneof![3 => Just(false), 1 => Just(true)],
        allow_invalid,
        proptest::collection::vec(op_strategy(), opts.min_len..=opts.max_len),
    )
        .prop_map(|(cfg, recompose, coeff_ctl, allow_invalid, mut ops)| {
            if !allow_invalid {
                for op in ops.iter_mut() {
                    if let ChOp::CheckPow { want_valid, .. } = op {
                        *want_valid = true;
                    }
                }
            }
            History {
                cfg,
                recompose,
                coeff_ctl,
                ops,
            }
        })
}

// ---------------------------------------------------------------------------------------------
// Exhaustive short op-kind sequences (small scope): every sequence over a 10-symbol alphabet
// up to a length bound, for every configuration; values are fixed functions of the position.
// ---------------------------------------------------------------------------------------------

fn alphabet(sym: usize, pos: usize, rate: usize) -> ChOp {
    let v = 1000 + 17 * pos as u64;
    match sym {
        0 => ChOp::ObserveBase(v),
        1 => ChOp::ObserveExt(vec![v, v + 1, v + 2, v + 3, v + 4]),
        2 => ChOp::ObserveSlice((0..rate as u64).map(|i| v + i).collect()),
        3 => ChOp::ObserveSlice((0..rate as u64 + 3).map(|i| v + i).collect()),
        4 => ChOp::SampleBase,
        5 => ChOp::SampleExt,
        6 => ChOp::SampleBits(5),
        7 => ChOp::CheckPow { bits: 3, want_valid: true, start: v },
        8 => ChOp::CheckPow { bits: 3, want_valid: false, start: v },
        _ => ChOp::Clear,
    }
}

const ALPHABET: usize = 10;

pub fn short_histories(max_len: usize) -> Vec<History> {
    let mut out = vec![];
    for cfg in 0..KIT_NAMES.len() as u8 {
        let rate = if KIT_NAMES[cfg as usize].contains("goldilocks") { 4 } else { 8 };
        for len in 0..=max_len {
            let total = ALPHABET.pow(len as u32);
            for code in 0..total {
                let mut c = code;
                let mut ops = Vec::with_capacity(len);
                for pos in 0..len {
                    ops.push(alphabet(c % ALPHABET, pos, rate));
                    c /= ALPHABET;
                }
                // recompose tables both ways; coeff-ctl links as the verifier sets them (on for
                // a D=1 permutation under a higher-degree challenge field)
                let name = KIT_NAMES[cfg as usize];
                let coeff_ctl = name.contains("quintic") || name.contains("quartic");
                for recompose in [false, true] {
                    out.push(History {
                        cfg,
                        recompose,
                        coeff_ctl,
                        ops: ops.clone(),
                    });
                }
            }
        }
    }
    out
}

pub fn run(ctx: &Ctx) {
    ctx.assume("model: p3_challenger::DuplexChallenger 0.6 with the permutation the circuit executor is given; clear = a fresh challenger");
    ctx.assume("observed base values are base-field elements embedded in EF (the documented contract of observe)");
    ctx.assume("the two D1-under-quartic configurations are not instantiated by the repo's own tests (documented in challenger_perm.rs only)");
    ctx.extra("configurations", serde_json::json!(KIT_NAMES));

    // debugging aid: VERIF_C05_CFGS=2,3 restricts the configurations (default: all)
    let cfgs: Vec<u8> = std::env::var("VERIF_C05_CFGS")
        .ok()
        .map(|s| s.split(',').filter_map(|x| x.trim().parse().ok()).collect())
        .filter(|v: &Vec<u8>| !v.is_empty())
        .unwrap_or_else(|| (0..KIT_NAMES.len() as u8).collect());
    if cfgs.len() != KIT_NAMES.len() {
        ctx.note(format!("configurations restricted by VERIF_C05_CFGS to {cfgs:?}"));
    }
    let base = GenOpts {
        cfgs: cfgs.clone(),
        ..GenOpts::default()
    };

    // smoke-testing aid: VERIF_C05_SCALE_PCT=5 runs 5 % of the (fixed) case counts
    let pct: u64 = std::env::var("VERIF_C05_SCALE_PCT")
        .ok()
        .and_then(|s| s.trim().parse().ok())
        .unwrap_or(100);
    if pct != 100 {
        ctx.note(format!("case counts scaled to {pct} % by VERIF_C05_SCALE_PCT"));
    }
    let scaled = |n: u32| ((n as u64 * pct) / 100).max(1) as u32;

    let n = scaled(ctx.tier.pick(250_000, 6_000_000));
    ctx.explore("histories", RULE, n, || history_strategy(base.clone()), oracle);

    if ctx.tier == fw::Tier::Thorough {
        ctx.explore(
            "histories-long",
            RULE,
            scaled(200_000),
            || {
                history_strategy(GenOpts {
                    min_len: 60,
                    max_len: 300,
                    ..base.clone()
                })
            },
            oracle,
        );
    }

    // small-scope: all op-kind sequences of length <= 3 (quick) / <= 4 (thorough)
    let max_len = if ctx.tier == fw::Tier::Thorough { 4 } else { 3 };
    let short_rule = format!(
        "every sequence of length <= {max_len} over the 10-symbol alphabet {{observe, observe_ext, observe_slice(RATE), \
observe_slice(RATE+3), sample, sample_ext, sample_bits(5), pow(3 bits, valid), pow(3 bits, invalid), clear}} for each of \
the 14 configurations (complete for that scope); same oracle and non-trivial rule"
    );
    let shorts: Vec<History> = short_histories(max_len)
        .into_iter()
        .filter(|h| cfgs.contains(&h.cfg))
        .collect();
    ctx.enumerate("short-exhaustive", &short_rule, shorts, cfgs.len() == KIT_NAMES.len(), oracle);

    let n3 = scaled(ctx.tier.pick(30_000, 500_000));
    ctx.explore(
        "api-roundtrip",
        RULE_ROUNDTRIP,
        n3,
        || history_strategy(base.clone()),
        oracle_roundtrip,
    );

    ctx.replay_known("histories", oracle);
}
