//! C11 — each table's constraints accept exactly the rows its operation allows.
//!
//! Row-level differential of the circuit-prover AIRs against arithmetic in the *true* extension
//! field (`BinomialExtensionField`, `QuinticTrinomialExtensionField`), both directions:
//!
//! * `alu-enum`      – complete single-cell perturbation enumeration: for every (kind, field
//!   configuration, lanes, K_max, target lane, predecessor shape) every (operand, coefficient)
//!   cell of the target row is perturbed once; plus one valid and one fully random table each.
//! * `alu-rows`      – random hand-built tables (main + preprocessed matrices written cell by cell
//!   from the documented layout, *not* by the repo's trace generator): valid / one cell perturbed
//!   / fully random.  Oracle = set of evaluation rows on which a constraint must fail.
//! * `alu-generated` – op lists pushed through the repo's own scheduler + `trace_to_matrix` +
//!   `preprocessed_trace()` (the matrices the prover would commit to), valid or with one visible
//!   operand coefficient perturbed.  Oracle = every op/packed group satisfies its relation.
//! * `witness-tables`– Const / Public / Recompose (std, coeff): these AIRs have *no* constraints
//!   (the relation lives on the WitnessChecks bus), so the row-level content is (a) any row is
//!   accepted and (b) the tuple the row puts on the bus is exactly `(index, coefficients)` with
//!   the preprocessed multiplicity, recorded with a recording `InteractionBuilder`.
//! * permutation tables live in `c11_perm.rs`.
//!
//! Constraints are evaluated row by row with `p3_air::DebugConstraintBuilder` (the builder behind
//! `p3_test_utils::air_satisfaction::check_air_satisfies`), wrapped so that bus messages are
//! recorded instead of dropped; `alu-generated` additionally calls `check_air_satisfies` itself.

use std::collections::{BTreeMap, BTreeSet};
use std::sync::Mutex;

use p3_air::{Air, AirBuilder, BaseAir, DebugConstraintBuilder, RowWindow};
use p3_baby_bear::BabyBear;
use p3_circuit::WitnessId;
use p3_circuit::ops::AluOpKind;
use p3_circuit::ops::recompose::RecomposeCircuitRow;
use p3_circuit::tables::{AluTrace, ConstTrace, PublicTrace};
use p3_circuit_prover::air::{AluAir, AluExtMulKind, ConstAir, PublicAir, RecomposeAir};
use p3_field::extension::{
    BinomialExtensionField, BinomiallyExtendable, QuinticTrinomialExtensionField,
};
use p3_field::{BasedVectorSpace, ExtensionField, Field, PrimeCharacteristicRing, PrimeField64};
use p3_goldilocks::Goldilocks;
use p3_koala_bear::KoalaBear;
use p3_lookup::{Count, InteractionBuilder};
use p3_matrix::Matrix;
use p3_matrix::dense::{RowMajorMatrix, RowMajorMatrixView};
use p3_matrix::stack::ViewPair;
use p3_test_utils::air_satisfaction::check_air_satisfies;
use proptest::prelude::*;
use serde::{Deserialize, Serialize};
use serde_json::json;

use crate::fw::{Ctx, Report, hash_of};

// =====================================================================================
// field configurations
// =====================================================================================

/// (base field, true extension field, reduction) the ALU AIR is instantiated with.
pub trait Cfg: 'static + Send + Sync {
    type F: PrimeField64 + Send + Sync;
    /// the *true* extension field of degree `D` – the oracle computes in it
    type E: Field + BasedVectorSpace<Self::F> + Send + Sync;
    /// challenge field handed to the debug builder (unused by these AIRs)
    type Ch: ExtensionField<Self::F>;
    const D: usize;
    const NAME: &'static str;
    fn kind() -> AluExtMulKind<Self::F>;
}

macro_rules! cfg {
    ($t:ident, $f:ty, $e:ty, $ch:ty, $d:expr, $name:expr, $kind:expr) => {
        pub struct $t;
        impl Cfg for $t {
            type F = $f;
            type E = $e;
            type Ch = $ch;
            const D: usize = $d;
            const NAME: &'static str = $name;
            fn kind() -> AluExtMulKind<$f> {
                $kind
            }
        }
    };
}

type Bb4 = BinomialExtensionField<BabyBear, 4>;
type Kb4 = BinomialExtensionField<KoalaBear, 4>;
type Gl2 = BinomialExtensionField<Goldilocks, 2>;

cfg!(CBb1, BabyBear, BabyBear, Bb4, 1, "D1-base-babybear", AluExtMulKind::Base);
cfg!(CKb1, KoalaBear, KoalaBear, Kb4, 1, "D1-base-koalabear", AluExtMulKind::Base);
cfg!(CGl1, Goldilocks, Goldilocks, Gl2, 1, "D1-base-goldilocks", AluExtMulKind::Base);
cfg!(CGl2, Goldilocks, Gl2, Gl2, 2, "D2-binomial-goldilocks", AluExtMulKind::Binomial {
    w: <Goldilocks as BinomiallyExtendable<2>>::W
});
cfg!(CBb4, BabyBear, Bb4, Bb4, 4, "D4-binomial-babybear", AluExtMulKind::Binomial {
    w: <BabyBear as BinomiallyExtendable<4>>::W
});
cfg!(CKb4, KoalaBear, Kb4, Kb4, 4, "D4-binomial-koalabear", AluExtMulKind::Binomial {
    w: <KoalaBear as BinomiallyExtendable<4>>::W
});
cfg!(
    CKb8,
    KoalaBear,
    BinomialExtensionField<KoalaBear, 8>,
    Kb4,
    8,
    "D8-binomial-koalabear",
    AluExtMulKind::Binomial {
        w: <KoalaBear as BinomiallyExtendable<8>>::W
    }
);
cfg!(
    CKb5,
    KoalaBear,
    QuinticTrinomialExtensionField<KoalaBear>,
    Kb4,
    5,
    "D5-quintic-koalabear",
    AluExtMulKind::QuinticTrinomial
);
cfg!(
    CBb5,
    BabyBear,
    BinomialExtensionField<BabyBear, 5>,
    Bb4,
    5,
    "D5-binomial-babybear",
    AluExtMulKind::Binomial {
        w: <BabyBear as BinomiallyExtendable<5>>::W
    }
);
cfg!(
    CBb8,
    BabyBear,
    BinomialExtensionField<BabyBear, 8>,
    Bb4,
    8,
    "D8-binomial-babybear",
    AluExtMulKind::Binomial {
        w: <BabyBear as BinomiallyExtendable<8>>::W
    }
);

pub const NCFG: usize = 10;
pub const CFG_NAMES: [&str; NCFG] = [
    CBb1::NAME,
    CKb1::NAME,
    CGl1::NAME,
    CGl2::NAME,
    CBb4::NAME,
    CKb4::NAME,
    CKb8::NAME,
    CKb5::NAME,
    CBb5::NAME,
    CBb8::NAME,
];
pub const CFG_D: [usize; NCFG] = [1, 1, 1, 2, 4, 4, 8, 5, 5, 8];

/// Call `$f::<Cfg, D>($($a),*)` for configuration index `$idx`.
#[macro_export]
macro_rules! c11_dispatch {
    ($idx:expr, $f:ident ( $($a:expr),* )) => {
        match ($idx as usize) % $crate::checks::c11::NCFG {
            0 => $f::<$crate::checks::c11::CBb1, 1>($($a),*),
            1 => $f::<$crate::checks::c11::CKb1, 1>($($a),*),
            2 => $f::<$crate::checks::c11::CGl1, 1>($($a),*),
            3 => $f::<$crate::checks::c11::CGl2, 2>($($a),*),
            4 => $f::<$crate::checks::c11::CBb4, 4>($($a),*),
            5 => $f::<$crate::checks::c11::CKb4, 4>($($a),*),
            6 => $f::<$crate::checks::c11::CKb8, 8>($($a),*),
            7 => $f::<$crate::checks::c11::CKb5, 5>($($a),*),
            8 => $f::<$crate::checks::c11::CBb5, 5>($($a),*),
            _ => $f::<$crate::checks::c11::CBb8, 8>($($a),*),
        }
    };
}

fn to_e<C: Cfg>(c: &[C::F]) -> C::E {
    C::E::from_basis_coefficients_slice(c).expect("D coefficients")
}
fn from_e<C: Cfg>(e: &C::E) -> Vec<C::F> {
    e.as_basis_coefficients_slice().to_vec()
}

// =====================================================================================
// deterministic expansion of a generated seed
// =====================================================================================

pub struct Sm(pub u64);
impl Sm {
    pub fn next(&mut self) -> u64 {
        self.0 = self.0.wrapping_add(0x9E3779B97F4A7C15);
        let mut z = self.0;
        z = (z ^ (z >> 30)).wrapping_mul(0xBF58476D1CE4E5B9);
        z = (z ^ (z >> 27)).wrapping_mul(0x94D049BB133111EB);
        z ^ (z >> 31)
    }
    pub fn below(&mut self, n: u64) -> u64 {
        self.next() % n.max(1)
    }
    /// field element by distribution: 0 uniform, 1 small {0,1,2,-1,-2}, 2 sparse (mostly 0)
    pub fn f<F: PrimeField64>(&mut self, dist: u8) -> F {
        match dist % 3 {
            0 => F::from_u64(self.next()),
            1 => match self.below(5) {
                0 => F::ZERO,
                1 => F::ONE,
                2 => F::TWO,
                3 => F::NEG_ONE,
                _ => F::ZERO - F::TWO,
            },
            _ => {
                if self.below(3) == 0 {
                    F::from_u64(self.next())
                } else {
                    F::ZERO
                }
            }
        }
    }
    pub fn vec<F: PrimeField64>(&mut self, n: usize, dist: u8) -> Vec<F> {
        (0..n).map(|_| self.f(dist)).collect()
    }
}

fn nonzero_delta<F: PrimeField64>(delta: u64) -> F {
    // 1 + (delta mod (p-1)) is never 0 mod p
    F::from_u64(1 + delta % (F::ORDER_U64 - 1))
}

// =====================================================================================
// recording builder: DebugConstraintBuilder + bus messages
// =====================================================================================

pub struct Rec<'a, F: Field, EF: ExtensionField<F>> {
    pub inner: DebugConstraintBuilder<'a, F, EF>,
    /// (fields, signed multiplicity) of every `push_interaction` on this row, in order
    pub sends: Vec<(Vec<F>, F)>,
}

impl<'a, F: Field, EF: ExtensionField<F>> AirBuilder for Rec<'a, F, EF> {
    type F = F;
    type Expr = F;
    type Var = F;
    type PreprocessedWindow = RowWindow<'a, F>;
    type MainWindow = RowWindow<'a, F>;
    type PublicVar = F;
    type PeriodicVar = F;

    fn main(&self) -> Self::MainWindow {
        self.inner.main()
    }
    fn preprocessed(&self) -> &Self::PreprocessedWindow {
        self.inner.preprocessed()
    }
    fn is_first_row(&self) -> F {
        self.inner.is_first_row()
    }
    fn is_last_row(&self) -> F {
        self.inner.is_last_row()
    }
    fn is_transition(&self) -> F {
        self.inner.is_transition()
    }
    fn assert_zero<I: Into<F>>(&mut self, x: I) {
        self.inner.assert_zero(x);
    }
    fn public_values(&self) -> &[F] {
        self.inner.public_values()
    }
    fn periodic_values(&self) -> &[F] {
        self.inner.periodic_values()
    }
}

impl<F: Field, EF: ExtensionField<F>> InteractionBuilder for Rec<'_, F, EF> {
    fn push_interaction<E: Into<F>>(
        &mut self,
        _bus_name: &str,
        fields: impl IntoIterator<Item = E>,
        count: impl Into<Count<F>>,
    ) {
        let (m, _w) = count.into().into_parts();
        self.sends
            .push((fields.into_iter().map(Into::into).collect(), m));
    }
    fn push_local_interaction(&mut self, tuples: impl IntoIterator<Item = (Vec<F>, Count<F>)>) {
        tuples.into_iter().for_each(drop);
    }
}

pub struct RowEval<F> {
    pub failed: bool,
    pub failures: String,
    pub sends: Vec<(Vec<F>, F)>,
}

/// Evaluate `air` on every cyclic (row, next row) pair of explicit main / preprocessed rows.
pub fn eval_rows<F, Ch, A>(air: &A, main: &[Vec<F>], prep: &[Vec<F>]) -> Vec<RowEval<F>>
where
    F: Field,
    Ch: ExtensionField<F>,
    A: for<'a> Air<Rec<'a, F, Ch>>,
{
    let h = main.len();
    assert_eq!(h, prep.len(), "main/preprocessed height mismatch");
    let empty_f: [F; 0] = [];
    let empty_ch: [Ch; 0] = [];
    (0..h)
        .map(|r| {
            let n = (r + 1) % h;
            let main_pair = ViewPair::new(
                RowMajorMatrixView::new_row(&main[r]),
                RowMajorMatrixView::new_row(&main[n]),
            );
            let prep_pair = ViewPair::new(
                RowMajorMatrixView::new_row(&prep[r]),
                RowMajorMatrixView::new_row(&prep[n]),
            );
            let perm_pair = ViewPair::<Ch>::new(
                RowMajorMatrixView::new(&empty_ch, 0),
                RowMajorMatrixView::new(&empty_ch, 0),
            );
            let inner = DebugConstraintBuilder::<F, Ch>::new_with_permutation(
                r,
                main_pair,
                prep_pair,
                &empty_f,
                F::from_bool(r == 0),
                F::from_bool(r == h - 1),
                F::from_bool(r != h - 1),
                perm_pair,
                &empty_ch,
                &empty_ch,
                &empty_f,
            );
            let mut b = Rec {
                inner,
                sends: vec![],
            };
            air.eval(&mut b);
            RowEval {
                failed: b.inner.has_failures(),
                failures: b.inner.formatted_failures(),
                sends: b.sends,
            }
        })
        .collect()
}

fn mat_rows<F: Field>(m: &RowMajorMatrix<F>) -> Vec<Vec<F>> {
    (0..m.height())
        .map(|r| m.row_slice(r).unwrap().to_vec())
        .collect()
}

/// multiset of the non-zero-multiplicity messages of one row
fn msg_multiset<F: PrimeField64>(s: &[(Vec<F>, F)]) -> BTreeMap<(Vec<u64>, u64), u32> {
    let mut m = BTreeMap::new();
    for (fields, mult) in s {
        if *mult == F::ZERO {
            continue;
        }
        let k = (
            fields.iter().map(|x| x.as_canonical_u64()).collect::<Vec<_>>(),
            mult.as_canonical_u64(),
        );
        *m.entry(k).or_insert(0) += 1;
    }
    m
}

// =====================================================================================
// 5-way histogram (kind, D/reduction, lanes, k, class) kept outside the class labels
// =====================================================================================

static HIST: Mutex<BTreeMap<String, u64>> = Mutex::new(BTreeMap::new());
pub(crate) fn hist(key: String) {
    *HIST.lock().unwrap().entry(key).or_default() += 1;
}

// =====================================================================================
// ALU: model of a hand-built table
// =====================================================================================

#[derive(Clone, Copy, Debug, Serialize, Deserialize, Hash, PartialEq, Eq, PartialOrd, Ord)]
pub enum Kind {
    Pad,
    Add,
    Mul,
    Bool,
    MulAdd,
    /// single-step HornerAcc (lane 0)
    Horner,
    /// packed HornerAcc row folding k steps (lane 0), 2 <= k <= K_max
    Packed(u8),
}

impl Kind {
    fn name(self) -> String {
        match self {
            Kind::Pad => "pad".into(),
            Kind::Add => "add".into(),
            Kind::Mul => "mul".into(),
            Kind::Bool => "bool".into(),
            Kind::MulAdd => "muladd".into(),
            Kind::Horner => "horner1".into(),
            Kind::Packed(k) => format!("horner-packed{k}"),
        }
    }
    fn is_horner(self) -> bool {
        matches!(self, Kind::Horner | Kind::Packed(_))
    }
}

#[derive(Clone, Debug, Serialize, Deserialize, Hash, PartialEq)]
pub enum Mode {
    /// every row computed from its defining relation
    Valid,
    /// valid, then `delta != 0` added to main cell (row % h, col % width)
    Perturb { row: u16, col: u16, delta: u64 },
    /// every main cell drawn from the value distribution
    Random,
    /// two cooperating scalar cells: cell (row, col1) += delta and cell (row + next2, col2) +=
    /// m * delta (a single-cell change that the constraints notice can be compensated by a
    /// second one when a constraint only looks at a combination of cells)
    CoupleS { row: u16, col1: u16, col2: u16, next2: bool, m: MSel, delta: u64 },
    /// the same on extension-field cells (groups of D columns): X += delta, Y += M * delta with
    /// the product taken in the true extension field
    CoupleE { row: u16, x: u16, y: u16, next2: bool, m: MSel, delta: u64, single_coeff: bool },
}

/// Multiplier of the compensating change.
#[derive(Clone, Debug, Serialize, Deserialize, Hash, PartialEq)]
pub enum MSel {
    One,
    NegOne,
    /// value of a cell of the valid table: row offset (-1, 0, +1 as 0, 1, 2) and cell index
    Cell { dr: u8, cell: u16, neg: bool },
}

#[derive(Clone, Debug, Serialize, Deserialize, Hash)]
pub struct AluCase {
    pub cfg: u8,
    /// lanes = 1 + lanes % 4
    pub lanes: u8,
    /// K_max = 2 + kmax % 5 (the code imposes no upper bound on `horner_packed_steps`)
    pub kmax: u8,
    /// kinds per row and lane (normalised: Horner kinds only in lane 0, row 0 lane 0 not Horner)
    pub rows: Vec<Vec<Kind>>,
    pub seed: u64,
    /// value distribution (0 uniform, 1 small, 2 sparse)
    pub dist: u8,
    /// pad slots / unconstrained auxiliary cells get random values instead of zeros
    pub garbage: bool,
    /// cyclic rotation of the finished table (exercises the wrap-around pair)
    pub rot: u8,
    pub mode: Mode,
}

/// Column layout, written from the documentation of `alu_air.rs` (not from its code).
#[derive(Clone, Copy, Debug)]
pub struct Lay {
    pub d: usize,
    pub lanes: usize,
    pub kmax: usize,
}
pub const PLW: usize = 13;
pub const STEP_W: usize = 6;
impl Lay {
    fn num_int(&self) -> usize {
        (self.kmax - 1) / 2
    }
    pub fn width(&self) -> usize {
        self.lanes * 4 * self.d + (self.num_int() + 2 * (self.kmax - 1) + 1) * self.d
    }
    pub fn pwidth(&self) -> usize {
        self.lanes * PLW + (self.kmax - 1) + STEP_W * (self.kmax - 1)
    }
    /// operand o (0=a,1=b,2=c,3=out) of lane
    fn op(&self, lane: usize, o: usize) -> usize {
        lane * 4 * self.d + o * self.d
    }
    fn x(&self) -> usize {
        self.lanes * 4 * self.d
    }
    fn int(&self, s: usize) -> usize {
        self.x() + s * self.d
    }
    fn at(&self, t: usize) -> usize {
        self.x() + self.num_int() * self.d + 2 * (t - 1) * self.d
    }
    fn ct(&self, t: usize) -> usize {
        self.at(t) + self.d
    }
    fn bsq(&self) -> usize {
        self.x() + self.num_int() * self.d + 2 * (self.kmax - 1) * self.d
    }
    fn p_selk(&self, k: usize) -> usize {
        self.lanes * PLW + (k - 2)
    }
    fn p_step(&self, t: usize) -> usize {
        self.lanes * PLW + (self.kmax - 1) + STEP_W * (t - 1)
    }
    /// human label of a main column: (lane or "x", operand name, coefficient)
    pub fn label(&self, col: usize) -> (String, String, usize) {
        let d = self.d;
        if col < self.x() {
            let lane = col / (4 * d);
            let o = (col % (4 * d)) / d;
            (
                format!("{lane}"),
                ["a", "b", "c", "out"][o].to_string(),
                col % d,
            )
        } else {
            let e = (col - self.x()) / d;
            let j = (col - self.x()) % d;
            let ni = self.num_int();
            let name = if e < ni {
                format!("int{e}")
            } else if e < ni + 2 * (self.kmax - 1) {
                let q = e - ni;
                format!("{}{}", if q % 2 == 0 { "a" } else { "c" }, q / 2 + 1)
            } else {
                "bsq".to_string()
            };
            ("x".into(), name, j)
        }
    }
}

pub struct Norm {
    pub lay: Lay,
    pub kinds: Vec<Vec<Kind>>,
}

pub fn normalise(c: &AluCase, d: usize) -> Norm {
    let lanes = 1 + (c.lanes % 4) as usize;
    let kmax = 2 + (c.kmax % 5) as usize;
    let mut kinds: Vec<Vec<Kind>> = c
        .rows
        .iter()
        .take(8)
        .map(|r| {
            let mut r: Vec<Kind> = r.iter().copied().take(lanes).collect();
            r.resize(lanes, Kind::Pad);
            for (l, k) in r.iter_mut().enumerate() {
                if let Kind::Packed(kk) = *k {
                    *k = Kind::Packed(kk.clamp(2, kmax as u8));
                }
                if l > 0 && k.is_horner() {
                    *k = Kind::Mul;
                }
            }
            r
        })
        .collect();
    if kinds.is_empty() {
        kinds.push(vec![Kind::Pad; lanes]);
    }
    if kinds[0][0].is_horner() {
        kinds[0][0] = Kind::Pad;
    }
    let h = kinds.len().next_power_of_two();
    kinds.resize(h, vec![Kind::Pad; lanes]);
    Norm {
        lay: Lay { d, lanes, kmax },
        kinds,
    }
}

/// Hand-built (main, preprocessed) rows of a *valid* table (before rotation / perturbation).
fn build_valid<C: Cfg>(n: &Norm, c: &AluCase) -> (Vec<Vec<C::F>>, Vec<Vec<C::F>>) {
    let lay = n.lay;
    let d = lay.d;
    let h = n.kinds.len();
    let mut g = Sm(c.seed);
    let dist = c.dist;
    let neg1 = C::F::NEG_ONE;
    let mut main = vec![vec![C::F::ZERO; lay.width()]; h];
    let mut prep = vec![vec![C::F::ZERO; lay.pwidth()]; h];
    let put = |row: &mut Vec<C::F>, off: usize, e: &C::E| {
        row[off..off + d].copy_from_slice(e.as_basis_coefficients_slice());
    };
    let mut rnd_e = |g: &mut Sm| to_e::<C>(&g.vec::<C::F>(d, dist));
    // multiplicity-like "don't care" preprocessed values: -1, 0, 1 or a small count
    let dc = |g: &mut Sm| match g.below(4) {
        0 => neg1,
        1 => C::F::ONE,
        2 => C::F::ZERO,
        _ => C::F::from_u64(2 + g.below(5)),
    };
    for r in 0..h {
        let prev_out = if r == 0 {
            C::E::ZERO // row 0 lane 0 is never Horner (normalised), value unused
        } else {
            to_e::<C>(&main[r - 1][lay.op(0, 3)..lay.op(0, 3) + d])
        };
        for lane in 0..lay.lanes {
            let kind = n.kinds[r][lane];
            let pb = lane * PLW;
            if kind == Kind::Pad {
                if c.garbage {
                    for o in 0..4 {
                        let e = rnd_e(&mut g);
                        put(&mut main[r], lay.op(lane, o), &e);
                    }
                }
                continue;
            }
            // preprocessed lane block
            prep[r][pb] = neg1; // mult_a: active
            match kind {
                Kind::Add => prep[r][pb + 1] = C::F::ONE,
                Kind::Bool => prep[r][pb + 2] = C::F::ONE,
                Kind::MulAdd => prep[r][pb + 3] = C::F::ONE,
                Kind::Horner | Kind::Packed(_) => prep[r][pb + 4] = C::F::ONE,
                _ => {}
            }
            for i in 0..4 {
                prep[r][pb + 5 + i] = C::F::from_u64(g.below(64) * d as u64);
            }
            prep[r][pb + 9] = dc(&mut g); // mult_b
            prep[r][pb + 10] = dc(&mut g); // mult_out
            prep[r][pb + 11] = dc(&mut g); // a_is_reader
            prep[r][pb + 12] = dc(&mut g); // c_is_reader

            let mut a = rnd_e(&mut g);
            let b = rnd_e(&mut g);
            let cc = rnd_e(&mut g);
            let out = match kind {
                Kind::Add => a + b,
                Kind::Mul => a * b,
                Kind::MulAdd => a * b + cc,
                Kind::Bool => {
                    a = if g.below(2) == 0 { C::E::ZERO } else { C::E::ONE };
                    a
                }
                Kind::Horner => prev_out * b + cc - a,
                Kind::Packed(k) => {
                    let k = k as usize;
                    prep[r][lay.p_selk(k)] = C::F::ONE;
                    let mut acc = prev_out * b + cc - a;
                    for t in 1..lay.kmax {
                        let ps = lay.p_step(t);
                        if t < k {
                            let at = rnd_e(&mut g);
                            let ct = rnd_e(&mut g);
                            acc = acc * b + ct - at;
                            put(&mut main[r], lay.at(t), &at);
                            put(&mut main[r], lay.ct(t), &ct);
                            prep[r][ps] = C::F::from_u64(g.below(64) * d as u64);
                            prep[r][ps + 1] = C::F::from_u64(g.below(64) * d as u64);
                            prep[r][ps + 2] = dc(&mut g);
                            prep[r][ps + 3] = dc(&mut g);
                            prep[r][ps + 4] = dc(&mut g);
                            prep[r][ps + 5] = dc(&mut g);
                        } else if c.garbage {
                            let e1 = rnd_e(&mut g);
                            let e2 = rnd_e(&mut g);
                            put(&mut main[r], lay.at(t), &e1);
                            put(&mut main[r], lay.ct(t), &e2);
                        }
                        // intermediate j holds the fold after 2(j+1) steps, as long as steps remain
                        if t % 2 == 1 && t + 1 < k {
                            put(&mut main[r], lay.int((t - 1) / 2), &acc);
                        }
                    }
                    if c.garbage {
                        // intermediates the arity does not use are not constrained
                        for j in (k - 1) / 2..lay.num_int() {
                            let e = rnd_e(&mut g);
                            put(&mut main[r], lay.int(j), &e);
                        }
                    }
                    put(&mut main[r], lay.bsq(), &(b * b));
                    acc
                }
                Kind::Pad => unreachable!(),
            };
            put(&mut main[r], lay.op(lane, 0), &a);
            put(&mut main[r], lay.op(lane, 1), &b);
            put(&mut main[r], lay.op(lane, 2), &cc);
            put(&mut main[r], lay.op(lane, 3), &out);
        }
        if c.garbage && !matches!(n.kinds[r][0], Kind::Packed(_)) {
            // auxiliary cells of a non-packed row are not constrained
            for col in lay.x()..lay.width() {
                main[r][col] = g.f(dist);
            }
        }
    }
    (main, prep)
}

#[derive(Clone, Debug)]
pub struct SlotVerdict {
    pub row: usize,
    pub lane: usize,
    pub kind: Kind,
    pub valid: bool,
}

pub struct Expect<F> {
    /// evaluation rows on which at least one constraint must be non-zero
    pub fail_rows: BTreeSet<usize>,
    /// which slot explains a failing evaluation row (first one)
    pub why: BTreeMap<usize, (usize, usize, Kind)>,
    pub slots: Vec<SlotVerdict>,
    /// bus messages every row must push
    pub sends: Vec<Vec<(Vec<F>, F)>>,
}

/// The oracle: read the final cell values back through the documented layout and decide, in the
/// true extension field, which rows violate their defining relation.
fn alu_expect<C: Cfg>(lay: Lay, kinds: &[Vec<Kind>], main: &[Vec<C::F>], prep: &[Vec<C::F>]) -> Expect<C::F> {
    let d = lay.d;
    let h = kinds.len();
    let e = |r: usize, off: usize| to_e::<C>(&main[r][off..off + d]);
    let mut fail_rows = BTreeSet::new();
    let mut why = BTreeMap::new();
    let mut slots = vec![];
    let mut sends = vec![];
    for r in 0..h {
        let pr = (r + h - 1) % h;
        for lane in 0..lay.lanes {
            let kind = kinds[r][lane];
            let a = e(r, lay.op(lane, 0));
            let b = e(r, lay.op(lane, 1));
            let c = e(r, lay.op(lane, 2));
            let out = e(r, lay.op(lane, 3));
            let mut bad_rows: Vec<usize> = vec![];
            // `sem` = the relation in its mathematical form; `bad_rows` = evaluation rows that must
            // flag, using the auxiliary witnesses literally (both must agree on validity)
            let sem = match kind {
                Kind::Pad => true,
                Kind::Add => a + b == out,
                Kind::Mul => a * b == out,
                Kind::MulAdd => a * b + c == out,
                Kind::Bool => a == C::E::ZERO || a == C::E::ONE,
                Kind::Horner => {
                    let prev = e(pr, lay.op(0, 3));
                    let ok = prev * b + c - a == out;
                    if !ok {
                        bad_rows.push(pr);
                    }
                    ok
                }
                Kind::Packed(k) => {
                    let k = k as usize;
                    let prev = e(pr, lay.op(0, 3));
                    let bsq = e(r, lay.bsq());
                    let a_t = |t: usize| if t == 0 { a } else { e(r, lay.at(t)) };
                    let c_t = |t: usize| if t == 0 { c } else { e(r, lay.ct(t)) };
                    // semantic: fold k steps; intermediate j = the fold after 2(j+1) steps while
                    // steps remain
                    let int_j = |j: usize| e(r, lay.int(j));
                    let mut acc = prev;
                    let mut ints_ok = true;
                    for t in 0..k {
                        acc = acc * b + c_t(t) - a_t(t);
                        if t % 2 == 1 && t + 1 < k {
                            ints_ok &= int_j((t - 1) / 2) == acc;
                        }
                    }
                    let sem = acc == out && bsq == b * b && ints_ok;
                    // literal: as the table lays the fold out over its auxiliary columns
                    if bsq != b * b {
                        bad_rows.push(r);
                    }
                    let fold2 = prev * bsq + (c_t(0) - a_t(0)) * b + c_t(1) - a_t(1);
                    if k == 2 {
                        if fold2 != out {
                            bad_rows.push(pr);
                        }
                    } else {
                        if fold2 != int_j(0) {
                            bad_rows.push(pr);
                        }
                        // intra-row legs: two steps at a time from the current intermediate,
                        // into the next intermediate or (last leg) into out; a single last step
                        // multiplies by b instead of b^2
                        let mut sidx = 2usize;
                        let mut slot = 0usize;
                        let mut bad_here = false;
                        while sidx < k {
                            if sidx + 1 < k {
                                let prod = int_j(slot) * bsq + (c_t(sidx) - a_t(sidx)) * b + c_t(sidx + 1) - a_t(sidx + 1);
                                if sidx + 2 >= k {
                                    bad_here |= prod != out;
                                } else {
                                    bad_here |= prod != int_j(slot + 1);
                                    slot += 1;
                                }
                                sidx += 2;
                            } else {
                                bad_here |= int_j(slot) * b + c_t(sidx) - a_t(sidx) != out;
                                sidx += 1;
                            }
                        }
                        if bad_here {
                            bad_rows.push(r);
                        }
                    }
                    sem
                }
            };
            if !kind.is_horner() && !sem {
                bad_rows.push(r);
            }
            assert_eq!(
                sem,
                bad_rows.is_empty(),
                "harness oracle inconsistency: semantic and literal forms disagree"
            );
            for br in bad_rows {
                fail_rows.insert(br);
                why.entry(br).or_insert((r, lane, kind));
            }
            if kind != Kind::Pad {
                slots.push(SlotVerdict {
                    row: r,
                    lane,
                    kind,
                    valid: sem,
                });
            }
        }
        // expected bus messages of row r
        let mut s = vec![];
        for lane in 0..lay.lanes {
            let pb = lane * PLW;
            let p = &prep[r];
            let mults = [p[pb] * p[pb + 11], p[pb + 9], p[pb] * p[pb + 12], p[pb + 10]];
            for o in 0..4 {
                let mut f = vec![p[pb + 5 + o]];
                f.extend_from_slice(&main[r][lay.op(lane, o)..lay.op(lane, o) + d]);
                s.push((f, mults[o]));
            }
        }
        for t in 1..lay.kmax {
            let ps = lay.p_step(t);
            let p = &prep[r];
            let mut f = vec![p[ps]];
            f.extend_from_slice(&main[r][lay.at(t)..lay.at(t) + d]);
            s.push((f, p[ps + 4]));
            let mut f = vec![p[ps + 1]];
            f.extend_from_slice(&main[r][lay.ct(t)..lay.ct(t) + d]);
            s.push((f, p[ps + 5]));
        }
        sends.push(s);
    }
    Expect {
        fail_rows,
        why,
        slots,
        sends,
    }
}

pub const RULE_ROWS: &str = "hand-built ALU tables (1-8 rows x 1-4 lanes, K_max 2-6, 10 field/reduction \
configurations) whose rows are valid / valid with one main cell perturbed / fully random; oracle: the set of \
evaluation rows with a failing constraint equals the set of rows whose defining relation fails in the true \
extension field, and each row's bus messages are exactly (index, operand coefficients, preprocessed \
multiplicity); non-trivial = table contains a row that must be rejected; distinct on (target kind, \
configuration, lanes, K_max, perturbed operand, coefficient) for perturbations, on the case otherwise";

fn alu_check<C: Cfg, const D: usize>(case: &AluCase) -> Report
where
    AluAir<C::F, D>: for<'a> Air<Rec<'a, C::F, C::Ch>>,
{
    assert_eq!(C::D, D);
    let n = normalise(case, D);
    let lay = n.lay;
    let h = n.kinds.len();
    let (mut main, mut prep) = build_valid::<C>(&n, case);
    let mut kinds = n.kinds.clone();
    let rot = case.rot as usize % h;
    main.rotate_left(rot);
    prep.rotate_left(rot);
    kinds.rotate_left(rot);

    let mut classes: Vec<String> = vec![
        format!("cfg:{}", C::NAME),
        format!("lanes:{}", lay.lanes),
        format!("kmax:{}", lay.kmax),
        format!("height:{h}"),
    ];
    if rot != 0 {
        classes.push("shape:rotated".into());
    }
    if case.garbage {
        classes.push("shape:garbage-in-free-cells".into());
    }
    let mut key = hash_of(case);
    let mode_name;
    let mut target: Option<(Kind, String, usize)> = None;
    match &case.mode {
        Mode::Valid => mode_name = "valid",
        Mode::Random => {
            mode_name = "random";
            let mut g = Sm(case.seed ^ 0xA5A5_5A5A_DEAD_BEEF);
            for r in 0..h {
                for col in 0..lay.width() {
                    main[r][col] = g.f(case.dist);
                }
            }
        }
        Mode::CoupleS { row, col1, col2, next2, m, delta } => {
            mode_name = "couple-scalar";
            let valid = main.clone();
            let r = *row as usize % h;
            let w = lay.width();
            let (c1, c2) = (*col1 as usize % w, *col2 as usize % w);
            let r2 = if *next2 { (r + 1) % h } else { r };
            if (r, c1) != (r2, c2) {
                let dl = nonzero_delta::<C::F>(*delta);
                let mv = match m {
                    MSel::One => C::F::ONE,
                    MSel::NegOne => C::F::NEG_ONE,
                    MSel::Cell { dr, cell, neg } => {
                        let rr = (r + h + (*dr as usize % 3) - 1) % h;
                        let v = valid[rr][*cell as usize % w];
                        if *neg { C::F::ZERO - v } else { v }
                    }
                };
                main[r][c1] += dl;
                main[r2][c2] += mv * dl;
            }
            let (lane, opn, j) = lay.label(c1);
            let (_, opn2, j2) = lay.label(c2);
            let tk = if lane == "x" { kinds[r][0] } else { kinds[r][lane.parse::<usize>().unwrap()] };
            let what = format!("{opn}{j}+{opn2}{j2}");
            key = hash_of(&(tk, case.cfg % NCFG as u8, lay.kmax, &what, *next2, m));
            target = Some((tk, format!("couple:{}", if opn == opn2 { "same-operand" } else { "two-operands" }), j));
        }
        Mode::CoupleE { row, x, y, next2, m, delta, single_coeff } => {
            mode_name = "couple-ext";
            let valid = main.clone();
            let d = lay.d;
            let r = *row as usize % h;
            let ne = lay.width() / d;
            let (x, y) = (*x as usize % ne, *y as usize % ne);
            let r2 = if *next2 { (r + 1) % h } else { r };
            if (r, x) != (r2, y) {
                let mut g = Sm(*delta ^ 0x5EED_C0DE);
                let mut dv: Vec<C::F> = g.vec::<C::F>(d, 0);
                if *single_coeff {
                    let keep = g.below(d as u64) as usize;
                    for (i, v) in dv.iter_mut().enumerate() {
                        if i != keep {
                            *v = C::F::ZERO;
                        }
                    }
                }
                if dv.iter().all(|v| *v == C::F::ZERO) {
                    dv[0] = C::F::ONE;
                }
                let de = to_e::<C>(&dv);
                let me = match m {
                    MSel::One => C::E::ONE,
                    MSel::NegOne => C::E::ZERO - C::E::ONE,
                    MSel::Cell { dr, cell, neg } => {
                        let rr = (r + h + (*dr as usize % 3) - 1) % h;
                        let c0 = (*cell as usize % ne) * d;
                        let v = to_e::<C>(&valid[rr][c0..c0 + d]);
                        if *neg { C::E::ZERO - v } else { v }
                    }
                };
                let xv = to_e::<C>(&main[r][x * d..(x + 1) * d]) + de;
                main[r][x * d..(x + 1) * d].copy_from_slice(&from_e::<C>(&xv));
                let yv = to_e::<C>(&main[r2][y * d..(y + 1) * d]) + me * de;
                main[r2][y * d..(y + 1) * d].copy_from_slice(&from_e::<C>(&yv));
            }
            let (lane, opn, _) = lay.label(x * d);
            let (_, opn2, _) = lay.label(y * d);
            let tk = if lane == "x" { kinds[r][0] } else { kinds[r][lane.parse::<usize>().unwrap()] };
            key = hash_of(&(tk, case.cfg % NCFG as u8, lay.kmax, &opn, &opn2, *next2, m));
            target = Some((tk, format!("couple-ext:{opn}+{opn2}"), 0));
        }
        Mode::Perturb { row, col, delta } => {
            mode_name = "perturb";
            let r = *row as usize % h;
            let col = *col as usize % lay.width();
            main[r][col] += nonzero_delta::<C::F>(*delta);
            let (lane, opn, j) = lay.label(col);
            let tk = if lane == "x" {
                kinds[r][0]
            } else {
                kinds[r][lane.parse::<usize>().unwrap()]
            };
            key = hash_of(&(tk, case.cfg % NCFG as u8, lay.lanes, lay.kmax, opn.clone(), j));
            target = Some((tk, opn, j));
        }
    }

    let exp = alu_expect::<C>(lay, &kinds, &main, &prep);
    let air = AluAir::<C::F, D>::from_reduction(h * lay.lanes, lay.lanes, C::kind())
        .with_horner_pack_k(lay.kmax);
    assert_eq!(BaseAir::<C::F>::width(&air), lay.width(), "main width (layout model)");
    assert_eq!(
        BaseAir::<C::F>::preprocessed_width(&air),
        lay.pwidth(),
        "preprocessed width (layout model)"
    );
    let ev = eval_rows::<C::F, C::Ch, _>(&air, &main, &prep);
    let got: BTreeSet<usize> = ev.iter().enumerate().filter(|(_, e)| e.failed).map(|(r, _)| r).collect();

    let must_reject = !exp.fail_rows.is_empty();
    assert!(
        !(case.mode == Mode::Valid && must_reject),
        "harness: a table built from the defining relations is not valid by the oracle ({:?})",
        exp.why
    );
    classes.push(format!("mode:{mode_name}"));
    classes.push(format!(
        "expect:{}",
        if must_reject { "reject" } else { "accept" }
    ));
    if let Some((tk, opn, _)) = &target {
        let opc: String = opn.chars().filter(|c| !c.is_ascii_digit()).collect();
        classes.push(format!(
            "perturb:{}:{}->{}",
            tk.name(),
            opc,
            if must_reject { "invalid" } else { "still-valid" }
        ));
        hist(format!(
            "{}|{}|lanes{}|kmax{}|perturbed-{}",
            tk.name(),
            C::NAME,
            lay.lanes,
            lay.kmax,
            if must_reject { "invalid" } else { "still-valid" }
        ));
    } else {
        for s in &exp.slots {
            hist(format!(
                "{}|{}|lanes{}|kmax{}|{}-{}",
                s.kind.name(),
                C::NAME,
                lay.lanes,
                lay.kmax,
                mode_name,
                if s.valid { "valid" } else { "invalid" }
            ));
        }
    }
    for s in &exp.slots {
        classes.push(format!(
            "slot:{}:D{}:{}",
            s.kind.name(),
            D,
            if s.valid { "valid" } else { "invalid" }
        ));
    }
    classes.sort();
    classes.dedup();

    let rep = Report::pass().classes(classes).nontrivial(must_reject).key(key);

    if got != exp.fail_rows {
        // first evaluation row whose verdict differs
        let r = *got.symmetric_difference(&exp.fail_rows).next().unwrap();
        let (dir, kind_label) = if exp.fail_rows.contains(&r) {
            let (_, _, k) = exp.why[&r];
            ("accepts-invalid-row", k.name())
        } else {
            let nx = (r + 1) % h;
            let k = if matches!(kinds[r][0], Kind::Packed(_)) {
                kinds[r][0]
            } else if kinds[nx][0].is_horner() {
                kinds[nx][0]
            } else {
                kinds[r].iter().copied().find(|k| *k != Kind::Pad).unwrap_or(Kind::Pad)
            };
            ("rejects-valid-row", k.name())
        };
        let whole = if got.is_empty() != exp.fail_rows.is_empty() {
            "table-verdict-differs"
        } else {
            "row-verdict-differs"
        };
        let mut r2 = Report::fail(
            format!("C11/alu/{dir}:{kind_label}:{}", C::NAME),
            format!(
                "{whole}: evaluation rows with failing constraints = {:?}, rows the relation rejects = {:?}; \
                 lanes={} kmax={} kinds={:?} perturbed={:?}; constraint failures at row {r}: {}",
                got,
                exp.fail_rows,
                lay.lanes,
                lay.kmax,
                kinds,
                target,
                ev[r].failures
            ),
        );
        r2.classes = rep.classes;
        return r2;
    }
    for r in 0..h {
        if msg_multiset(&ev[r].sends) != msg_multiset(&exp.sends[r]) {
            let mut r2 = Report::fail(
                format!("C11/alu/bus-message-mismatch:{}", C::NAME),
                format!(
                    "row {r}: messages pushed {:?} != (index, operand, multiplicity) of the row {:?}",
                    ev[r].sends, exp.sends[r]
                ),
            );
            r2.classes = rep.classes;
            return r2;
        }
    }
    rep
}

pub fn alu_oracle(case: &AluCase) -> Report {
    c11_dispatch!(case.cfg, alu_check(case))
}

fn kind_strategy() -> impl Strategy<Value = Kind> {
    prop_oneof![
        2 => Just(Kind::Pad),
        2 => Just(Kind::Add),
        3 => Just(Kind::Mul),
        2 => Just(Kind::Bool),
        3 => Just(Kind::MulAdd),
        4 => Just(Kind::Horner),
        5 => (2u8..=6).prop_map(Kind::Packed),
    ]
}

fn msel_strategy() -> impl Strategy<Value = MSel> {
    prop_oneof![
        2 => Just(MSel::One),
        3 => Just(MSel::NegOne),
        5 => (0u8..3, any::<u16>(), any::<bool>()).prop_map(|(dr, cell, neg)| MSel::Cell { dr, cell, neg }),
    ]
}

pub fn alu_strategy() -> impl Strategy<Value = AluCase> {
    let mode = prop_oneof![
        2 => Just(Mode::Valid),
        5 => (any::<u16>(), any::<u16>(), prop_oneof![Just(0u64), any::<u64>()])
            .prop_map(|(row, col, delta)| Mode::Perturb { row, col, delta }),
        2 => Just(Mode::Random),
        3 => (any::<u16>(), any::<u16>(), any::<u16>(), any::<bool>(), msel_strategy(), prop_oneof![Just(0u64), any::<u64>()])
            .prop_map(|(row, col1, col2, next2, m, delta)| Mode::CoupleS { row, col1, col2, next2, m, delta }),
        3 => (any::<u16>(), any::<u16>(), any::<u16>(), any::<bool>(), msel_strategy(), any::<u64>(), any::<bool>())
            .prop_map(|(row, x, y, next2, m, delta, single_coeff)| Mode::CoupleE { row, x, y, next2, m, delta, single_coeff }),
    ];
    (
        0u8..NCFG as u8,
        0u8..4,
        prop_oneof![3 => 0u8..3, 2 => 3u8..5],
        proptest::collection::vec(proptest::collection::vec(kind_strategy(), 4), 1..=7),
        any::<u64>(),
        prop_oneof![3 => Just(0u8), 2 => Just(1u8), 1 => Just(2u8)],
        prop_oneof![5 => Just(false), 1 => Just(true)],
        prop_oneof![5 => Just(0u8), 1 => 1u8..8],
        mode,
    )
        .prop_map(|(cfg, lanes, kmax, rows, seed, dist, garbage, rot, mode)| AluCase {
            cfg,
            lanes,
            kmax,
            rows,
            seed,
            dist,
            garbage,
            rot,
            mode,
        })
}

/// Complete enumeration: every (operand, coefficient) cell of a target row once per
/// (kind, configuration, lanes, K_max, target lane, predecessor shape), plus a valid and a random
/// table for each.
pub fn alu_enumeration(seed: u64) -> Vec<AluCase> {
    let fillers = [Kind::Add, Kind::Mul, Kind::MulAdd, Kind::Bool];
    let mut out = vec![];
    for cfg in 0..NCFG {
        let d = CFG_D[cfg];
        for lanes in 1..=4usize {
            for kmax in 2..=6usize {
                let lay = Lay { d, lanes, kmax };
                let mut targets: Vec<(Kind, usize, Kind)> = vec![];
                for k in [Kind::Add, Kind::Mul, Kind::Bool, Kind::MulAdd] {
                    for lane in 0..lanes {
                        targets.push((k, lane, Kind::Pad));
                    }
                }
                let mut hk = vec![Kind::Horner];
                hk.extend((2..=kmax as u8).map(Kind::Packed));
                for &k in &hk {
                    for pred in [Kind::Pad, Kind::Horner, Kind::Packed(kmax as u8)] {
                        targets.push((k, 0, pred));
                    }
                }
                // Horner targets twice: followed by another Horner step (its out feeds on) and by a
                // non-Horner row (so a failing out coefficient is not masked by the follower)
                let nt = targets.len();
                for (ti, &(kind, lane, pred)) in targets.clone().iter().chain(targets.iter().filter(|t| t.0.is_horner())).enumerate() {
                    let plain_follower = ti >= nt;
                    let fill = |salt: usize| -> Vec<Kind> {
                        (0..lanes).map(|l| fillers[(l + salt + ti) % 4]).collect()
                    };
                    // rows: [separator, (pred), target, follower, pad]
                    let mut rows: Vec<Vec<Kind>> = vec![];
                    let mut r0 = fill(0);
                    r0[0] = Kind::Pad;
                    rows.push(r0);
                    if kind.is_horner() && pred != Kind::Pad {
                        let mut r = fill(1);
                        r[0] = pred;
                        rows.push(r);
                    }
                    let trow = rows.len();
                    let mut rt = fill(2);
                    rt[lane] = kind;
                    rows.push(rt);
                    let mut rf = fill(3);
                    if kind.is_horner() && !plain_follower {
                        rf[0] = Kind::Horner;
                    }
                    rows.push(rf);
                    let base = |mode: Mode, salt: u64| AluCase {
                        cfg: cfg as u8,
                        lanes: (lanes - 1) as u8,
                        kmax: (kmax - 2) as u8,
                        rows: rows.clone(),
                        seed: hash_of(&(seed, cfg, lanes, kmax, ti, salt)),
                        dist: (salt % 2) as u8,
                        garbage: false,
                        rot: 0,
                        mode,
                    };
                    out.push(base(Mode::Valid, 0));
                    out.push(base(Mode::Random, 1));
                    // columns: the target slot's operands; for Horner kinds also every auxiliary
                    // column of the row and the predecessor row's lane-0 out
                    let mut cells: Vec<(usize, usize)> = (lay.op(lane, 0)..lay.op(lane, 0) + 4 * d)
                        .map(|c| (trow, c))
                        .collect();
                    if kind.is_horner() {
                        cells.extend((lay.x()..lay.width()).map(|c| (trow, c)));
                        cells.extend((lay.op(0, 3)..lay.op(0, 3) + d).map(|c| (trow - 1, c)));
                    }
                    // cooperating pairs (a): two coefficients of one operand of the target slot,
                    // delta and -delta (a constraint that only sees a sum of coefficients)
                    let mut salt = 10_000u64;
                    for o in 0..4 {
                        for i in 0..d {
                            for j in (i + 1)..d {
                                salt += 1;
                                out.push(base(
                                    Mode::CoupleS {
                                        row: trow as u16,
                                        col1: (lay.op(lane, o) + i) as u16,
                                        col2: (lay.op(lane, o) + j) as u16,
                                        next2: false,
                                        m: MSel::NegOne,
                                        delta: hash_of(&(seed, salt)),
                                    },
                                    salt,
                                ));
                            }
                        }
                    }
                    // cooperating pairs (b), Horner rows with one lane: an auxiliary extension cell of
                    // the row changes by delta and an output (this row's / the next row's out, or
                    // the first intermediate) by M * delta, M in {+-1, +-previous out, +-b, +-b^2}
                    if kind.is_horner() && lanes == 1 {
                        let ne = lay.width() / d;
                        let aux: Vec<usize> = (lay.x() / d..ne).collect();
                        let outs: Vec<(usize, bool)> = {
                            let mut v = vec![(lay.op(0, 3) / d, false), (lay.op(0, 3) / d, true)];
                            for j in 0..lay.num_int() {
                                v.push((lay.int(j) / d, false));
                                v.push((lay.int(j) / d, true));
                            }
                            v
                        };
                        let mults: Vec<MSel> = {
                            let mut v = vec![MSel::One, MSel::NegOne];
                            for (dr, cell) in [(0u8, lay.op(0, 3) / d), (1, lay.op(0, 1) / d), (1, lay.bsq() / d)] {
                                for neg in [false, true] {
                                    v.push(MSel::Cell { dr, cell: cell as u16, neg });
                                }
                            }
                            v
                        };
                        for &x in &aux {
                            for &(y, next2) in &outs {
                                for m in &mults {
                                    salt += 1;
                                    out.push(base(
                                        Mode::CoupleE {
                                            row: trow as u16,
                                            x: x as u16,
                                            y: y as u16,
                                            next2,
                                            m: m.clone(),
                                            delta: hash_of(&(seed, salt)),
                                            single_coeff: salt % 2 == 0,
                                        },
                                        salt,
                                    ));
                                }
                            }
                        }
                    }
                    for (ci, (r, col)) in cells.into_iter().enumerate() {
                        out.push(base(
                            Mode::Perturb {
                                row: r as u16,
                                col: col as u16,
                                // alternate delta = 1 (boundary for bool) and a seed-derived delta
                                delta: if ci % 2 == 0 { 0 } else { hash_of(&(seed, ci, ti)) },
                            },
                            2 + ci as u64,
                        ));
                    }
                }
            }
        }
    }
    out
}

// =====================================================================================
// ALU through the repo's scheduler and trace generator
// =====================================================================================

#[derive(Clone, Debug, Serialize, Deserialize, Hash)]
pub enum Seg {
    /// a non-Horner op
    Op(Kind),
    /// a Horner chain given as packed-group sizes (1 = single step)
    Chain(Vec<u8>),
}

#[derive(Clone, Debug, Serialize, Deserialize, Hash)]
pub struct GenCase {
    pub cfg: u8,
    pub lanes: u8,
    pub kmax: u8,
    pub segs: Vec<Seg>,
    pub seed: u64,
    pub dist: u8,
    pub log_min_height: u8,
    /// (visible target index, coefficient, delta)
    pub perturb: Option<(u16, u16, u64)>,
}

pub const RULE_GEN: &str = "op lists (non-Horner ops and Horner chains of packed groups) laid out by the repo's own \
compute_schedule / trace_to_matrix / preprocessed_trace, valid or with one coefficient of one operand that appears \
in the table perturbed; oracle: check_air_satisfies Ok <=> every op (packed group: fold of its steps from the \
previous group's out, 0 at a chain start) satisfies its relation in the true extension field; also the packed \
arities read from the generated preprocessed trace equal the intended grouping; non-trivial = must be rejected; \
distinct on (kind, configuration, lanes, K_max, operand, coefficient, position in group)";

struct GOp<E> {
    kind: Kind, // Add/Mul/Bool/MulAdd/Horner
    v: [E; 4],
    /// (chain id, group id, position in group, group size) for Horner ops
    grp: Option<(usize, usize, usize, usize)>,
}

fn gen_check<C: Cfg, const D: usize>(case: &GenCase) -> Report
where
    AluAir<C::F, D>: for<'a> Air<Rec<'a, C::F, C::Ch>>
        + for<'a> Air<DebugConstraintBuilder<'a, C::F, C::Ch>>
        + BaseAir<C::F>,
{
    let lanes = 1 + (case.lanes % 4) as usize;
    let kmax = 2 + (case.kmax % 5) as usize;
    let mut g = Sm(case.seed);
    let dist = case.dist;
    let mut rnd_e = |g: &mut Sm| to_e::<C>(&g.vec::<C::F>(D, dist));

    // ---- flatten into ops; adjacent Chain segments merge into one chain (maximal Horner run)
    let mut ops: Vec<GOp<C::E>> = vec![];
    let mut groups: Vec<usize> = vec![]; // intended group sizes in op order
    let mut chain_id = 0usize;
    let mut prev_was_chain = false;
    let mut prev_out = C::E::ZERO;
    for seg in case.segs.iter().take(10) {
        match seg {
            Seg::Op(k) => {
                let k = if k.is_horner() || *k == Kind::Pad { Kind::Mul } else { *k };
                let mut a = rnd_e(&mut g);
                let b = rnd_e(&mut g);
                let c = rnd_e(&mut g);
                let out = match k {
                    Kind::Add => a + b,
                    Kind::Mul => a * b,
                    Kind::MulAdd => a * b + c,
                    _ => {
                        a = if g.below(2) == 0 { C::E::ZERO } else { C::E::ONE };
                        a
                    }
                };
                ops.push(GOp {
                    kind: k,
                    v: [a, b, c, out],
                    grp: None,
                });
                prev_was_chain = false;
            }
            Seg::Chain(gs) => {
                if !prev_was_chain {
                    chain_id += 1;
                    prev_out = C::E::ZERO;
                }
                for &sz in gs.iter().take(4) {
                    let sz = (sz as usize).clamp(1, kmax);
                    let gid = groups.len();
                    groups.push(sz);
                    let b = rnd_e(&mut g);
                    for pos in 0..sz {
                        let a = rnd_e(&mut g);
                        let c = rnd_e(&mut g);
                        let out = prev_out * b + c - a;
                        prev_out = out;
                        ops.push(GOp {
                            kind: Kind::Horner,
                            v: [a, b, c, out],
                            grp: Some((chain_id, gid, pos, sz)),
                        });
                    }
                }
                prev_was_chain = !gs.is_empty() || prev_was_chain;
            }
        }
    }
    if ops.is_empty() {
        return Report::discard("empty op list");
    }

    // ---- visible perturbation targets: cells of the op list that end up in the table
    let mut visible: Vec<(usize, usize)> = vec![];
    for (i, op) in ops.iter().enumerate() {
        for o in 0..4 {
            let vis = match (op.grp, o) {
                (Some((_, _, pos, _)), 1) => pos == 0, // b is taken from the first step
                (Some((_, _, pos, sz)), 3) => pos + 1 == sz, // only the last step's out is stored
                _ => true,
            };
            if vis {
                visible.push((i, o));
            }
        }
    }
    let mut target = None;
    if let Some((t, j, delta)) = case.perturb {
        let (i, o) = visible[crate::fw::pick(t, visible.len())];
        let j = j as usize % D;
        let mut cs = from_e::<C>(&ops[i].v[o]);
        cs[j] += nonzero_delta::<C::F>(delta);
        ops[i].v[o] = to_e::<C>(&cs);
        target = Some((i, o, j));
    }

    // ---- oracle on the op list
    let mut invalid: Vec<(usize, Kind)> = vec![];
    {
        let mut i = 0;
        let mut prev = C::E::ZERO;
        let mut last_chain = 0usize;
        while i < ops.len() {
            let op = &ops[i];
            match op.grp {
                None => {
                    let [a, b, c, out] = op.v;
                    let ok = match op.kind {
                        Kind::Add => a + b == out,
                        Kind::Mul => a * b == out,
                        Kind::MulAdd => a * b + c == out,
                        _ => a == C::E::ZERO || a == C::E::ONE,
                    };
                    if !ok {
                        invalid.push((i, op.kind));
                    }
                    i += 1;
                }
                Some((ch, _, _, sz)) => {
                    if ch != last_chain {
                        prev = C::E::ZERO;
                        last_chain = ch;
                    }
                    let b = op.v[1];
                    let mut acc = prev;
                    for t in 0..sz {
                        acc = acc * b + ops[i + t].v[2] - ops[i + t].v[0];
                    }
                    let out = ops[i + sz - 1].v[3];
                    if acc != out {
                        invalid.push((i, if sz == 1 { Kind::Horner } else { Kind::Packed(sz as u8) }));
                    }
                    prev = out;
                    i += sz;
                }
            }
        }
    }
    let must_reject = !invalid.is_empty();
    assert!(
        !(target.is_none() && must_reject),
        "harness: an op list built from the defining relations is not valid by the oracle ({invalid:?})"
    );

    // ---- AluTrace + flat preprocessed (13 per op), as the prover's common.rs emits them
    let neg1 = C::F::NEG_ONE;
    let mut flat: Vec<C::F> = vec![];
    let mut trace = AluTrace::<C::E> {
        op_kind: vec![],
        values: vec![],
        indices: vec![],
    };
    let mut next_wid = 100u32;
    for op in &ops {
        let (kind, sels) = match op.kind {
            Kind::Add => (AluOpKind::Add, [1, 0, 0, 0]),
            Kind::Mul => (AluOpKind::Mul, [0, 0, 0, 0]),
            Kind::Bool => (AluOpKind::BoolCheck, [0, 1, 0, 0]),
            Kind::MulAdd => (AluOpKind::MulAdd, [0, 0, 1, 0]),
            _ => (AluOpKind::HornerAcc, [0, 0, 0, 1]),
        };
        // b index: shared inside a group, different between adjacent groups
        let b_wid = match op.grp {
            Some((_, gid, _, _)) => 10 + gid as u32,
            None => {
                next_wid += 1;
                next_wid
            }
        };
        let ids = [next_wid + 1, b_wid, next_wid + 2, next_wid + 3];
        next_wid += 4;
        trace.op_kind.push(kind);
        trace.values.push(op.v);
        trace.indices.push(ids.map(WitnessId));
        flat.push(neg1);
        flat.extend(sels.iter().map(|&s| C::F::from_u64(s)));
        flat.extend(ids.iter().map(|&w| C::F::from_u64(w as u64 * D as u64)));
        flat.extend([neg1, C::F::ONE, C::F::ONE, C::F::ONE]);
    }
    let min_h = 1usize << (case.log_min_height % 4);
    let air = AluAir::<C::F, D>::from_reduction_with_preprocessed(ops.len(), lanes, C::kind(), flat, kmax)
        .with_min_height(min_h);
    let main = air.trace_to_matrix(&trace, min_h);
    let prep = BaseAir::<C::F>::preprocessed_trace(&air).expect("ALU has a preprocessed trace");

    let tk = target.map(|(i, o, _)| {
        let k = match ops[i].grp {
            Some((_, _, pos, sz)) if sz > 1 => format!("horner-packed{sz}-step{pos}"),
            Some(_) => "horner1".to_string(),
            None => ops[i].kind.name(),
        };
        (k, ["a", "b", "c", "out"][o])
    });
    let mut classes = vec![
        format!("cfg:{}", C::NAME),
        format!("lanes:{lanes}"),
        format!("kmax:{kmax}"),
        format!("mode:{}", if target.is_some() { "perturb" } else { "valid" }),
        format!("expect:{}", if must_reject { "reject" } else { "accept" }),
        format!("height:{}", main.height()),
    ];
    if let Some((k, o)) = &tk {
        classes.push(format!(
            "perturb:{k}:{o}->{}",
            if must_reject { "invalid" } else { "still-valid" }
        ));
        hist(format!(
            "gen:{k}|{}|lanes{lanes}|kmax{kmax}|perturbed-{}",
            C::NAME,
            if must_reject { "invalid" } else { "still-valid" }
        ));
    } else {
        for op in &ops {
            let k = match op.grp {
                Some((_, _, 0, sz)) if sz > 1 => format!("horner-packed{sz}"),
                Some((_, _, _, sz)) if sz > 1 => continue,
                Some(_) => "horner1".into(),
                None => op.kind.name(),
            };
            hist(format!("gen:{k}|{}|lanes{lanes}|kmax{kmax}|valid", C::NAME));
        }
    }
    for sz in &groups {
        classes.push(format!("group:k{sz}"));
    }
    classes.sort();
    classes.dedup();
    let key = match (&tk, target) {
        (Some((k, o)), Some((_, _, j))) => hash_of(&(k, o, j, case.cfg % NCFG as u8, lanes, kmax)),
        _ => hash_of(case),
    };
    let rep = Report::pass().classes(classes).nontrivial(must_reject).key(key);
    let fail = |sig: String, msg: String| {
        let mut r = Report::fail(sig, msg);
        r.classes = rep.classes.clone();
        r
    };

    if main.height() != prep.height() || main.width() != BaseAir::<C::F>::width(&air) {
        return fail(
            format!("C11/alu-gen/shape-mismatch:{}", C::NAME),
            format!(
                "main {}x{} vs preprocessed height {} / declared width {}",
                main.height(),
                main.width(),
                prep.height(),
                BaseAir::<C::F>::width(&air)
            ),
        );
    }
    // grouping read back from the generated preprocessed trace (lane 0: sel_horner, sel_k)
    let lay = Lay { d: D, lanes, kmax };
    let mut got_groups: Vec<usize> = vec![];
    for r in 0..prep.height() {
        let row = prep.row_slice(r).unwrap();
        if row[4] == C::F::ONE {
            let k = (2..=kmax).find(|&k| row[lay.p_selk(k)] == C::F::ONE).unwrap_or(1);
            got_groups.push(k);
        }
    }
    if got_groups != groups {
        return fail(
            format!("C11/alu-gen/schedule-grouping-differs:{}", C::NAME),
            format!("intended packed groups {groups:?}, preprocessed trace has {got_groups:?}"),
        );
    }
    let res = check_air_satisfies::<C::F, C::Ch, _>(&air, &main, &[]);
    // same through the recording evaluator (must agree with the library helper)
    let ev = eval_rows::<C::F, C::Ch, _>(&air, &mat_rows(&main), &mat_rows(&prep));
    let any_failed = ev.iter().any(|e| e.failed);
    if any_failed != res.is_err() {
        return fail(
            "C11/harness/evaluator-disagrees-with-check_air_satisfies".into(),
            format!("{res:?} vs recording evaluator failed={any_failed}"),
        );
    }
    match (res, must_reject) {
        (Ok(()), true) => {
            let (i, k) = invalid[0];
            fail(
                format!("C11/alu-gen/accepts-invalid-row:{}:{}", k.name(), C::NAME),
                format!(
                    "op {i} ({}) violates its relation but the generated table satisfies all constraints; \
                     lanes={lanes} kmax={kmax} groups={groups:?} perturbed={target:?} ({tk:?})",
                    k.name()
                ),
            )
        }
        (Err((row, f)), false) => {
            let k = if groups.is_empty() { "no-horner".to_string() } else { format!("horner-k{}", groups.iter().max().unwrap()) };
            fail(
                format!("C11/alu-gen/rejects-valid-row:{k}:{}", C::NAME),
                format!(
                    "all ops satisfy their relations but row {row} fails {f}; lanes={lanes} kmax={kmax} \
                     groups={groups:?} min_height={min_h}"
                ),
            )
        }
        _ => rep,
    }
}

pub fn gen_oracle(case: &GenCase) -> Report {
    c11_dispatch!(case.cfg, gen_check(case))
}

pub fn gen_strategy() -> impl Strategy<Value = GenCase> {
    let seg = prop_oneof![
        3 => prop_oneof![Just(Kind::Add), Just(Kind::Mul), Just(Kind::Bool), Just(Kind::MulAdd)].prop_map(Seg::Op),
        4 => proptest::collection::vec(1u8..=6, 1..=4).prop_map(Seg::Chain),
    ];
    (
        0u8..NCFG as u8,
        0u8..4,
        prop_oneof![3 => 0u8..3, 2 => 3u8..5],
        proptest::collection::vec(seg, 1..=6),
        any::<u64>(),
        prop_oneof![3 => Just(0u8), 1 => Just(1u8), 1 => Just(2u8)],
        0u8..4,
        prop_oneof![
            1 => Just(None),
            3 => (any::<u16>(), any::<u16>(), prop_oneof![Just(0u64), any::<u64>()]).prop_map(Some),
        ],
    )
        .prop_map(|(cfg, lanes, kmax, segs, seed, dist, log_min_height, perturb)| GenCase {
            cfg,
            lanes,
            kmax,
            segs,
            seed,
            dist,
            log_min_height,
            perturb,
        })
}

// =====================================================================================
// Const / Public / Recompose: constraint-free tables, relation = the bus message
// =====================================================================================

#[derive(Clone, Debug, Serialize, Deserialize, Hash)]
pub struct WitCase {
    /// 0 const, 1 public, 2 recompose (std), 3 recompose/coeff
    pub table: u8,
    pub cfg: u8,
    pub lanes: u8,
    /// number of ops = 1 + n % 9
    pub n: u8,
    pub seed: u64,
    pub dist: u8,
    pub log_min_height: u8,
    pub mode: Mode,
}

pub const RULE_WIT: &str = "Const / Public / Recompose(std, coeff) tables built with the repo's constructors and \
trace_to_matrix from 1-9 ops x lanes 1-4 x 10 configurations, rows valid / one cell perturbed / random; these AIRs \
declare no constraints, so the oracle is: (a) every row is accepted, (b) trace_to_matrix places coefficient j of op i \
at (i / lanes, (i % lanes)*D + j), (c) each row's bus messages are exactly (index, coefficients of the value) with \
the preprocessed multiplicity (recompose/coeff: plus (coeff index, v_i, 0..0) per coefficient); non-trivial = \
perturbed or random row (the message must follow the cell); distinct on (table, configuration, lanes, mode, column)";

const WIT_NAMES: [&str; 4] = ["const", "public", "recompose-std", "recompose-coeff"];

fn wit_check<C: Cfg, const D: usize>(case: &WitCase) -> Report
where
    ConstAir<C::F, D>: for<'a> Air<Rec<'a, C::F, C::Ch>> + BaseAir<C::F>,
    PublicAir<C::F, D>: for<'a> Air<Rec<'a, C::F, C::Ch>> + BaseAir<C::F>,
    RecomposeAir<C::F, D>: for<'a> Air<Rec<'a, C::F, C::Ch>> + BaseAir<C::F>,
{
    let table = (case.table % 4) as usize;
    let lanes = if table == 0 { 1 } else { 1 + (case.lanes % 4) as usize };
    let n = 1 + (case.n % 9) as usize;
    let mut min_h = 1usize << (case.log_min_height % 4);
    if table >= 2 {
        // RecomposeAir::trace_to_matrix has no min-height argument
        min_h = 1;
    }
    let mut g = Sm(case.seed);
    let values: Vec<C::E> = (0..n).map(|_| to_e::<C>(&g.vec::<C::F>(D, case.dist))).collect();
    let wids: Vec<u32> = (0..n).map(|_| g.below(500) as u32).collect();
    let mults: Vec<C::F> = (0..n)
        .map(|_| match g.below(3) {
            0 => C::F::ONE,
            1 => C::F::NEG_ONE,
            _ => C::F::from_u64(g.below(7)),
        })
        .collect();
    // recompose/coeff: per coefficient (index, multiplicity)
    let cidx: Vec<Vec<(C::F, C::F)>> = (0..n)
        .map(|_| {
            (0..D)
                .map(|_| (C::F::from_u64(g.below(500) * D as u64), C::F::from_u64(g.below(4))))
                .collect()
        })
        .collect();
    let idx_f = |i: usize| C::F::from_u64(wids[i] as u64 * D as u64);

    // flat preprocessed as the prover hands it to the constructors
    let mut flat: Vec<C::F> = vec![];
    for i in 0..n {
        match table {
            0 | 1 => flat.extend([mults[i], idx_f(i)]),
            _ => {
                flat.extend([idx_f(i), mults[i]]);
                if table == 3 {
                    for &(ci, cm) in &cidx[i] {
                        flat.extend([ci, cm]);
                    }
                }
            }
        }
    }
    // main via the repo's trace_to_matrix + evaluation
    let index: Vec<WitnessId> = wids.iter().map(|&w| WitnessId(w)).collect();
    let (mut main, prep): (Vec<Vec<C::F>>, Vec<Vec<C::F>>);
    let run: Box<dyn Fn(&[Vec<C::F>], &[Vec<C::F>]) -> Vec<RowEval<C::F>>>;
    match table {
        0 => {
            let m = ConstAir::<C::F, D>::trace_to_matrix(
                &ConstTrace {
                    index,
                    values: values.clone(),
                },
                min_h,
            );
            let air = ConstAir::<C::F, D>::new_with_preprocessed(n, flat).with_min_height(min_h);
            main = mat_rows(&m);
            prep = mat_rows(&BaseAir::<C::F>::preprocessed_trace(&air).unwrap());
            run = Box::new(move |m, p| eval_rows::<C::F, C::Ch, _>(&air, m, p));
        }
        1 => {
            let m = PublicAir::<C::F, D>::trace_to_matrix(
                &PublicTrace {
                    index,
                    values: values.clone(),
                },
                lanes,
                min_h,
            );
            let air = PublicAir::<C::F, D>::new_with_preprocessed(n, lanes, flat).with_min_height(min_h);
            main = mat_rows(&m);
            prep = mat_rows(&BaseAir::<C::F>::preprocessed_trace(&air).unwrap());
            run = Box::new(move |m, p| eval_rows::<C::F, C::Ch, _>(&air, m, p));
        }
        _ => {
            let rows: Vec<RecomposeCircuitRow<C::F>> = (0..n)
                .map(|i| RecomposeCircuitRow {
                    input_wids: (0..D).map(|j| WitnessId(1000 + (i * D + j) as u32)).collect(),
                    output_wid: WitnessId(wids[i]),
                    values: from_e::<C>(&values[i]),
                })
                .collect();
            let m = RecomposeAir::<C::F, D>::trace_to_matrix(&rows, lanes);
            let air = RecomposeAir::<C::F, D>::new_with_preprocessed(lanes, flat, min_h, table == 3);
            main = mat_rows(&m);
            prep = mat_rows(&BaseAir::<C::F>::preprocessed_trace(&air).unwrap());
            run = Box::new(move |m, p| eval_rows::<C::F, C::Ch, _>(&air, m, p));
        }
    }
    let mode_name = match case.mode {
        Mode::Valid => "valid",
        Mode::Perturb { .. } => "perturb",
        Mode::Random => "random",
        // the witness-table strategy never generates coupled modes
        Mode::CoupleS { .. } | Mode::CoupleE { .. } => "valid",
    };
    let mut classes = vec![
        format!("table:{}", WIT_NAMES[table]),
        format!("cfg:{}", C::NAME),
        format!("lanes:{lanes}"),
        format!("mode:{mode_name}"),
        format!("{}|D{}|{}", WIT_NAMES[table], D, mode_name),
    ];
    hist(format!("{}|{}|lanes{lanes}|-|{mode_name}", WIT_NAMES[table], C::NAME));
    let fail = |classes: &Vec<String>, sig: String, msg: String| {
        let mut r = Report::fail(sig, msg);
        r.classes = classes.clone();
        r
    };
    let h = main.len();
    let width = lanes * D;
    if prep.len() != h || main[0].len() != width {
        return fail(
            &classes,
            format!("C11/{}/shape-mismatch", WIT_NAMES[table]),
            format!("main {}x{} prep height {} expected width {width}", h, main[0].len(), prep.len()),
        );
    }
    // (b) independent layout model of the main trace
    let mut model = vec![vec![C::F::ZERO; width]; h];
    for i in 0..n {
        let cs = from_e::<C>(&values[i]);
        model[i / lanes][(i % lanes) * D..(i % lanes + 1) * D].copy_from_slice(&cs);
    }
    if model != main {
        return fail(
            &classes,
            format!("C11/{}/trace-layout-differs:{}", WIT_NAMES[table], C::NAME),
            format!("trace_to_matrix {main:?} != model {model:?}"),
        );
    }
    let mut key = hash_of(case);
    match &case.mode {
        Mode::Valid | Mode::CoupleS { .. } | Mode::CoupleE { .. } => {}
        Mode::Random => {
            let mut g2 = Sm(case.seed ^ 0x1234_5678_9ABC_DEF0);
            for r in 0..h {
                for c in 0..width {
                    main[r][c] = g2.f(case.dist);
                }
            }
        }
        Mode::Perturb { row, col, delta } => {
            let r = *row as usize % h;
            let c = *col as usize % width;
            main[r][c] += nonzero_delta::<C::F>(*delta);
            key = hash_of(&(table, case.cfg % NCFG as u8, lanes, c));
            classes.push(format!(
                "perturb:{}",
                if r * lanes + c / D < n { "active-op" } else { "padding" }
            ));
        }
    }
    let ev = run(&main, &prep);
    if let Some((r, e)) = ev.iter().enumerate().find(|(_, e)| e.failed) {
        return fail(
            &classes,
            format!("C11/{}/rejects-row-of-constraint-free-table:{}", WIT_NAMES[table], C::NAME),
            format!("row {r}: {}", e.failures),
        );
    }
    // (c) expected messages from the op list and the final cells
    for r in 0..h {
        let mut exp: Vec<(Vec<C::F>, C::F)> = vec![];
        for lane in 0..lanes {
            let i = r * lanes + lane;
            if i >= n {
                continue; // padding: multiplicity 0, no message
            }
            let cells = &main[r][lane * D..(lane + 1) * D];
            let mut f = vec![idx_f(i)];
            f.extend_from_slice(cells);
            exp.push((f, mults[i]));
            if table == 3 {
                for j in 0..D {
                    let mut f = vec![cidx[i][j].0, cells[j]];
                    f.extend(std::iter::repeat_n(C::F::ZERO, D - 1));
                    exp.push((f, cidx[i][j].1));
                }
            }
        }
        if msg_multiset(&ev[r].sends) != msg_multiset(&exp) {
            return fail(
                &classes,
                format!("C11/{}/bus-message-mismatch:{}", WIT_NAMES[table], C::NAME),
                format!("row {r}: pushed {:?}, the row's ops are {:?}", ev[r].sends, exp),
            );
        }
    }
    Report::pass()
        .classes(classes)
        .nontrivial(case.mode != Mode::Valid)
        .key(key)
}

pub fn wit_oracle(case: &WitCase) -> Report {
    c11_dispatch!(case.cfg, wit_check(case))
}

pub fn wit_strategy() -> impl Strategy<Value = WitCase> {
    let mode = prop_oneof![
        1 => Just(Mode::Valid),
        2 => (any::<u16>(), any::<u16>(), prop_oneof![Just(0u64), any::<u64>()])
            .prop_map(|(row, col, delta)| Mode::Perturb { row, col, delta }),
        1 => Just(Mode::Random),
    ];
    (0u8..4, 0u8..NCFG as u8, 0u8..4, 0u8..9, any::<u64>(), 0u8..3, 0u8..4, mode).prop_map(
        |(table, cfg, lanes, n, seed, dist, log_min_height, mode)| WitCase {
            table,
            cfg,
            lanes,
            n,
            seed,
            dist,
            log_min_height,
            mode,
        },
    )
}

// =====================================================================================

pub fn run(ctx: &Ctx) {
    ctx.assume(
        "BoolCheck relation is the AIR's own (a in {0,1}, higher coefficients 0); out = a is a bus matter (C04)",
    );
    ctx.assume(
        "Horner relation is row-level: prev_out is the previous (cyclic) row's lane-0 out cell, whatever that row is",
    );
    ctx.assume(
        "Const/Public/Recompose AIRs declare no constraints; their row relation is checked on the recorded bus message",
    );
    ctx.assume("HornerAcc kinds are generated in lane 0 only (the scheduler never places them elsewhere)");

    // the enumeration is complete over (kind, configuration, lanes, K_max, lane, neighbours, cell);
    // the thorough tier repeats it with four value seeds
    for rep in 0..ctx.tier.pick(1, 4) as u64 {
        let en = alu_enumeration(ctx.seed.wrapping_add(rep.wrapping_mul(0x9E37_79B9)));
        ctx.enumerate("alu-enum", RULE_ROWS, en, true, alu_oracle);
    }
    ctx.explore("alu-rows", RULE_ROWS, ctx.tier.pick(800_000, 24_000_000), alu_strategy, alu_oracle);
    ctx.explore("alu-generated", RULE_GEN, ctx.tier.pick(300_000, 8_000_000), gen_strategy, gen_oracle);
    ctx.replay_known("alu-generated", gen_oracle);
    ctx.explore("witness-tables", RULE_WIT, ctx.tier.pick(150_000, 4_000_000), wit_strategy, wit_oracle);
    crate::checks::c11_perm::run(ctx);

    if !ctx.in_replay() {
        let h = HIST.lock().unwrap();
        let thin: Vec<&String> = h.iter().filter(|(_, v)| **v < 3).map(|(k, _)| k).collect();
        ctx.extra("histogram_kind_cfg_lanes_k_class", json!(*h));
        ctx.extra("histogram_cells", json!(h.len()));
        ctx.extra("histogram_cells_below_3", json!(thin));
    }
}
