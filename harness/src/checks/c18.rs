//! C18 — compilation and key generation are deterministic.
//!
//! The same program is compiled repeatedly — in one process (every hashbrown map gets a
//! fresh random state) and in freshly spawned child processes (fresh ASLR / hash seeds, and
//! different rayon thread counts) — and a canonical digest of everything a prover and a
//! verifier must agree on is compared.

use std::hash::{Hash, Hasher};
use std::io::Write;
use std::process::{Command, Stdio};

use proptest::prelude::*;
use serde::{Deserialize, Serialize};

use crate::checks::c10::{Case as C10Case, packing};
use crate::dispatch_field;
use crate::e1::{self, Built, GenOpts, Prog};
use crate::fw::{Ctx, Report, hash_of};
use crate::pv::{NpoSel, Pv};

#[derive(Clone, Debug, Serialize, Deserialize, Hash)]
pub struct Case {
    pub prog: Prog,
    pub public_lanes: u8,
    pub alu_lanes: u8,
    pub horner_k: u8,
    /// also compare across child processes (expensive: only in the `processes` sub-check)
    pub processes: bool,
}

pub const RULE: &str = "random source programs (recompose std/coeff NPO tables on/off, many connect classes) x \
packing, compiled 6 times in-process (fresh hash seeds per map) and, in the `processes` sub-check, in 3 freshly \
spawned child processes with RAYON_NUM_THREADS in {1,3,16}; oracle: equality of a canonical digest of ops (kinds, \
slots, executor type ids, in order), witness count, public/private rows, sorted expr_to_widx and witness_rewrite, \
generator order, ordered table degrees, every preprocessed column, the preprocessed commitment and (child \
processes) the execution traces; non-trivial = program with a non-primitive table or >= 3 connect classes; distinct on \
(program hash, packing)";

/// Canonical digest of one compilation (+ key generation, + proof when `prove`).
/// `level` 1: circuit + table degrees + preprocessed columns; 2: + preprocessed commitment;
/// 3: + the execution traces.
pub fn digest<C: Pv>(c: &Case, level: u8) -> Result<Vec<(String, u64)>, String> {
    let (built, _linked): (Built<C>, bool) = e1::interpret_linked::<C>(&c.prog, e1::Excl::ALL_SAT);
    let Built {
        builder,
        publics,
        privates,
        ..
    } = built;
    let circuit = builder.build().map_err(|e| format!("build: {e:?}"))?;
    let mut out = vec![];
    let h = |s: &dyn Fn(&mut std::collections::hash_map::DefaultHasher)| {
        let mut hs = std::collections::hash_map::DefaultHasher::new();
        s(&mut hs);
        hs.finish()
    };
    out.push((
        "ops".to_string(),
        h(&|hs| {
            for op in &circuit.ops {
                e1::fmt_op::<C>(op).hash(hs);
            }
        }),
    ));
    out.push((
        "layout".to_string(),
        h(&|hs| {
            circuit.witness_count.hash(hs);
            circuit.public_rows.iter().for_each(|w| w.0.hash(hs));
            circuit.private_input_rows.iter().for_each(|w| w.0.hash(hs));
            let mut m: Vec<(u32, u32)> = circuit.expr_to_widx.iter().map(|(e, w)| (e.0, w.0)).collect();
            m.sort();
            m.hash(hs);
            let mut r: Vec<(u32, u32)> = circuit
                .witness_rewrite
                .iter()
                .flatten()
                .map(|(a, b)| (a.0, b.0))
                .collect();
            r.sort();
            r.hash(hs);
            for t in &circuit.non_primitive_trace_generator_order {
                t.as_str().hash(hs);
            }
        }),
    ));
    let pk = packing(&C10Case {
        prog: Prog {
            field: 0,
            recompose_npo: false,
            stmts: vec![],
        },
        public_lanes: c.public_lanes,
        alu_lanes: c.alu_lanes,
        horner_k: c.horner_k,
        log_min_height: 0,
    });
    let npo = NpoSel {
        recompose: c.prog.recompose_npo,
        debug_lookups: false,
        poseidon2: None,
        poseidon1: None,
    };
    let setup = match C::setup(&circuit, &pk, &npo) {
        Ok(s) => s,
        Err(e) => {
            // a setup error must be deterministic too
            out.push(("setup-error".into(), hash_of(&format!("{}:{}", e.kind(), e.msg()))));
            return Ok(out);
        }
    };
    out.push(("degrees".into(), hash_of(&setup.degrees)));
    out.push((
        "preprocessed".into(),
        h(&|hs| {
            for col in &setup.cpd.primitive_columns {
                format!("{col:?}").hash(hs);
            }
            let mut keys: Vec<_> = setup.cpd.non_primitive_columns.keys().cloned().collect();
            keys.sort();
            for k in keys {
                k.as_str().hash(hs);
                format!("{:?}", setup.cpd.non_primitive_columns[&k]).hash(hs);
            }
        }),
    ));
    if level >= 2 {
        out.push(("commitment".into(), hash_of(&C::commitment_string(&setup))));
    }
    if level >= 3 {
        let mut runner = circuit.runner();
        let run = runner
            .set_public_inputs(&publics)
            .and_then(|_| runner.set_private_inputs(&privates))
            .and_then(|_| runner.run());
        match run {
            Ok(traces) => {
                // (proof bytes are deliberately not compared: proof-of-work grinding searches in
                // parallel and may return any valid witness)
                out.push((
                    "traces".into(),
                    hash_of(&format!(
                        "{:?}|{:?}|{:?}|{:?}",
                        traces.const_trace.values.iter().map(C::coeffs).collect::<Vec<_>>(),
                        traces.public_trace.values.iter().map(C::coeffs).collect::<Vec<_>>(),
                        traces.alu_trace.values.iter().map(|r| r.iter().map(C::coeffs).collect::<Vec<_>>()).collect::<Vec<_>>(),
                        traces.alu_trace.indices.iter().map(|r| r.iter().map(|w| w.0).collect::<Vec<_>>()).collect::<Vec<_>>(),
                    )),
                ));
            }
            Err(e) => out.push(("run-error".into(), hash_of(&format!("{e:?}")))),
        }
    }
    Ok(out)
}

pub fn digest_any(c: &Case, level: u8) -> Result<Vec<(String, u64)>, String> {
    dispatch_field!(c.prog.field as usize, C => digest::<C>(c, level))
}

/// Entry point of the child process (`verif __c18-child`): case JSON on stdin, digest on stdout.
pub fn child_main() -> i32 {
    let mut s = String::new();
    if std::io::Read::read_to_string(&mut std::io::stdin(), &mut s).is_err() {
        return 2;
    }
    let Ok(c) = serde_json::from_str::<Case>(&s) else {
        return 2;
    };
    match crate::fw::catch(|| digest_any(&c, 3)) {
        Ok(Ok(d)) => {
            println!("{}", serde_json::to_string(&d).unwrap());
            0
        }
        Ok(Err(e)) => {
            println!("{}", serde_json::to_string(&vec![("error".to_string(), hash_of(&e))]).unwrap());
            0
        }
        Err(p) => {
            println!("{}", serde_json::to_string(&vec![("panic".to_string(), hash_of(&crate::fw::sig_of_panic(&p)))]).unwrap());
            0
        }
    }
}

fn run_child(c: &Case, rayon_threads: u32) -> Result<Vec<(String, u64)>, String> {
    let exe = std::env::current_exe().map_err(|e| e.to_string())?;
    let mut child = Command::new(exe)
        .arg("__c18-child")
        .env("RAYON_NUM_THREADS", rayon_threads.to_string())
        .stdin(Stdio::piped())
        .stdout(Stdio::piped())
        .stderr(Stdio::null())
        .spawn()
        .map_err(|e| e.to_string())?;
    child
        .stdin
        .take()
        .unwrap()
        .write_all(serde_json::to_string(c).unwrap().as_bytes())
        .map_err(|e| e.to_string())?;
    let out = child.wait_with_output().map_err(|e| e.to_string())?;
    if !out.status.success() {
        return Err(format!("child exited with {:?}", out.status));
    }
    serde_json::from_slice(&out.stdout).map_err(|e| format!("child output: {e}"))
}

fn first_diff(a: &[(String, u64)], b: &[(String, u64)]) -> Option<String> {
    if a.len() != b.len() {
        return Some("component-count".into());
    }
    a.iter()
        .zip(b)
        .find(|(x, y)| x != y)
        .map(|(x, _)| x.0.clone())
}

pub fn oracle(c: &Case) -> Report {
    let base = match digest_any(c, if c.processes { 3 } else { 2 }) {
        Ok(d) => d,
        Err(e) => return Report::fail("C18/build-error", e),
    };
    let has_npo = c.prog.recompose_npo
        && c.prog
            .stmts
            .iter()
            .any(|s| matches!(s, e1::Stmt::ExtDecomp(_) | e1::Stmt::ExtRecomp(_)));
    let connects = c
        .prog
        .stmts
        .iter()
        .filter(|s| matches!(s, e1::Stmt::Copy(..) | e1::Stmt::Connect(..) | e1::Stmt::AssertZero(_)))
        .count();
    let mut rep = Report::pass()
        .nontrivial(has_npo || connects >= 3)
        .key(hash_of(c))
        .class(if has_npo { "npo-tables:yes" } else { "npo-tables:no" })
        .class(format!("connect-stmts:{}", connects.min(5)));
    for i in 0..5 {
        match digest_any(c, 1) {
            Ok(d) => {
                let n = d.len();
                if let Some(what) = first_diff(&base[..n.min(base.len())], &d) {
                    return Report::fail(
                        format!("C18/in-process-diff:{what}"),
                        format!("rebuild #{i} in the same process differs in component '{what}'"),
                    );
                }
            }
            Err(e) => return Report::fail("C18/in-process-diff:build", e),
        }
    }
    rep = rep.class("schedule:in-process x6");
    if c.processes {
        for threads in [1u32, 3, 16] {
            match run_child(c, threads) {
                Ok(d) => {
                    if let Some(what) = first_diff(&base, &d) {
                        return Report::fail(
                            format!("C18/cross-process-diff:{what}"),
                            format!("child process (RAYON_NUM_THREADS={threads}) differs in component '{what}'"),
                        );
                    }
                }
                Err(e) => return Report::discard(format!("child failed: {e}")),
            }
        }
        rep = rep.class("schedule:child-processes x3 (rayon 1/3/16)");
    }
    rep
}

fn strategy(processes: bool, max_len: usize) -> impl Strategy<Value = Case> {
    (
        e1::prog_strategy(GenOpts {
            violating: false,
            free_connect: true,
            max_len,
            free_horner_weight: 1,
            fields: vec![0, 1, 3, 4, 6],
            ..GenOpts::default()
        }),
        0u8..4,
        0u8..4,
        0u8..3,
    )
        .prop_map(move |(prog, public_lanes, alu_lanes, horner_k)| Case {
            prog,
            public_lanes,
            alu_lanes,
            horner_k,
            processes,
        })
}

// ---------------------------------------------------------------------------------------------
// Key generation with several non-primitive tables of one family
// ---------------------------------------------------------------------------------------------

/// A circuit with two Poseidon2 tables (width 16 and width 32) registered through
/// `poseidon2_air_builders_for_configs`, the way `FriRecursionBackend::with_extra_poseidon2_table`
/// does: table order, degrees and preprocessed traces must be the same on every derivation.
#[derive(Clone, Debug, Serialize, Deserialize, Hash)]
pub struct TwoTables {
    pub rows16: u8,
    pub rows32: u8,
    /// interleave the calls of the two widths instead of one block per width
    pub interleave: bool,
    /// registration order of the two configurations
    pub wide_first: bool,
    pub public_lanes: u8,
    pub alu_lanes: u8,
    pub seed: u64,
}

pub const RULE_TABLES: &str = "circuits with 1-6 width-16 and 1-6 width-32 Poseidon2 permutation rows (KoalaBear, \
degree 4; one block per width or interleaved calls) and both tables registered through \
poseidon2_air_builders_for_configs (either order) x table packing; the circuit is rebuilt and the AIRs, degrees and \
preprocessed traces are derived 8 times in one process. Oracle: op list, table order (width, degree) and every \
preprocessed trace identical on every derivation. Non-trivial = every case; distinct on (rows, interleave, order, packing)";

fn two_tables_signatures(c: &TwoTables) -> Result<Vec<u64>, String> {
    use p3_air::BaseAir;
    use p3_circuit::CircuitBuilder;
    use p3_circuit::ops::{Poseidon2Config, Poseidon2PermCall, generate_poseidon2_trace};
    use p3_circuit_prover::batch_stark_prover::poseidon2_air_builders_for_configs;
    use p3_circuit_prover::common::{NpoPreprocessor, get_airs_and_degrees_with_prep};
    use p3_circuit_prover::config::KoalaBearConfig;
    use p3_circuit_prover::{ConstraintProfile, Poseidon2Preprocessor, TablePacking};
    use p3_field::{PrimeCharacteristicRing, PrimeField64};
    use p3_koala_bear::{KoalaBear, default_koalabear_poseidon2_16, default_koalabear_poseidon2_32};
    use p3_poseidon2_circuit_air::{KoalaBearD4Width16, KoalaBearD4Width32};
    type F = KoalaBear;
    type EF = p3_field::extension::BinomialExtensionField<F, 4>;
    const W16: Poseidon2Config = Poseidon2Config::KOALA_BEAR_D4_W16;
    const W32: Poseidon2Config = Poseidon2Config::KOALA_BEAR_D4_W32;
    let (n16, n32) = (1 + (c.rows16 % 6) as usize, 1 + (c.rows32 % 6) as usize);
    let packing = TablePacking::new(1 + (c.public_lanes % 3) as usize, 1 + (c.alu_lanes % 4) as usize);
    let mut sigs = vec![];
    for _round in 0..8 {
        let mut b = CircuitBuilder::<EF>::new();
        b.enable_poseidon2_perm::<KoalaBearD4Width16, _>(
            generate_poseidon2_trace::<EF, KoalaBearD4Width16>,
            default_koalabear_poseidon2_16(),
        );
        b.enable_poseidon2_perm_width_32::<KoalaBearD4Width32, _>(
            generate_poseidon2_trace::<EF, KoalaBearD4Width32>,
            default_koalabear_poseidon2_32(),
        );
        let mut order: Vec<bool> = vec![];
        if c.interleave {
            let (mut a, mut w) = (n16, n32);
            while a + w > 0 {
                if a > 0 {
                    order.push(false);
                    a -= 1;
                }
                if w > 0 {
                    order.push(true);
                    w -= 1;
                }
            }
        } else {
            order.extend(std::iter::repeat_n(false, n16));
            order.extend(std::iter::repeat_n(true, n32));
        }
        for (i, wide) in order.iter().enumerate() {
            let cfg = if *wide { W32 } else { W16 };
            let inputs = (0..cfg.width_ext())
                .map(|k| {
                    let v = c.seed.wrapping_add((i * 100 + k) as u64) % 1_000_003 + 1;
                    Some(b.alloc_const(EF::from_u64(v), "perm_in"))
                })
                .collect();
            let (_, outputs) = b
                .add_poseidon2_perm(&Poseidon2PermCall {
                    config: cfg,
                    new_start: true,
                    merkle_path: false,
                    mmcs_bit: None,
                    mmcs_bit2: None,
                    inputs,
                    out_ctl: vec![true; cfg.rate_ext()],
                    return_all_outputs: false,
                    mmcs_index_sum: None,
                })
                .map_err(|e| format!("add_poseidon2_perm: {e:?}"))?;
            if let (Some(Some(x)), Some(Some(y))) = (outputs.first(), outputs.get(1)) {
                b.add(*x, *y);
            }
        }
        let circuit = b.build().map_err(|e| format!("build: {e:?}"))?;
        let preprocessors: Vec<Box<dyn NpoPreprocessor<F>>> = vec![Box::new(Poseidon2Preprocessor)];
        let cfgs = if c.wide_first { vec![W32, W16] } else { vec![W16, W32] };
        let air_builders = poseidon2_air_builders_for_configs::<KoalaBearConfig, 4>(cfgs);
        let (airs_degrees, _prim, _nonprim) = get_airs_and_degrees_with_prep::<KoalaBearConfig, _, 4>(
            &circuit,
            &packing,
            &preprocessors,
            &air_builders,
            ConstraintProfile::Standard,
        )
        .map_err(|e| format!("get_airs_and_degrees_with_prep: {e:?}"))?;
        let ops: Vec<String> = circuit.ops.iter().map(crate::e1::fmt_op::<crate::fields::Kb4>).collect();
        let tables: Vec<(usize, usize, Vec<u64>)> = airs_degrees
            .iter()
            .map(|(air, degree)| {
                let prep: Vec<u64> = BaseAir::<F>::preprocessed_trace(air)
                    .map(|m| m.values.iter().map(|x| x.as_canonical_u64()).collect())
                    .unwrap_or_default();
                (BaseAir::<F>::width(air), *degree, prep)
            })
            .collect();
        sigs.push(hash_of(&(ops, tables)));
    }
    Ok(sigs)
}

pub fn oracle_tables(c: &TwoTables) -> Report {
    let rep = Report::pass()
        .class(if c.interleave { "calls:interleaved" } else { "calls:blocks" })
        .class(if c.wide_first { "registered:w32-first" } else { "registered:w16-first" })
        .nontrivial(true)
        .key(hash_of(&(c.rows16 % 6, c.rows32 % 6, c.interleave, c.wide_first, c.public_lanes % 3, c.alu_lanes % 4)));
    match crate::fw::catch(|| two_tables_signatures(c)) {
        Err(p) => Report::fail(format!("C18/two-tables:panic:{}", crate::fw::sig_of_panic(&p)), p),
        Ok(Err(e)) => Report::discard(format!("not buildable: {}", e.chars().take(80).collect::<String>())),
        Ok(Ok(sigs)) => {
            if let Some(i) = sigs.iter().position(|s| *s != sigs[0]) {
                let mut r = Report::fail(
                    "C18/two-tables:derivation-differs".to_string(),
                    format!("derivation #{i} of the same circuit (two Poseidon2 tables) differs from derivation #0 in op list, table order or preprocessed traces"),
                );
                r.classes = rep.classes;
                return r;
            }
            rep.class("outcome:8-derivations-identical")
        }
    }
}

fn tables_strategy() -> impl Strategy<Value = TwoTables> {
    (0u8..6, 0u8..6, any::<bool>(), any::<bool>(), 0u8..3, 0u8..4, any::<u64>()).prop_map(
        |(rows16, rows32, interleave, wide_first, public_lanes, alu_lanes, seed)| TwoTables {
            rows16,
            rows32,
            interleave,
            wide_first,
            public_lanes,
            alu_lanes,
            seed,
        },
    )
}

// ------------------------------------------------------------------------------------------
// verifier circuits: the in-circuit STARK/FRI verifier compiled several times for one proof
// ------------------------------------------------------------------------------------------

#[derive(Clone, Debug, Serialize, Deserialize, Hash)]
pub struct VCase {
    pub shape: crate::checks::c14::Shape,
    pub seed_a: u64,
    pub seed_b: u64,
}

pub const RULE_VC: &str = "proof shapes of C14's generator (uni/batch STARK families, lookups, preprocessed columns, \
ZK, several tables of different heights, FRI parameters, cap heights): a proof of the shape is made natively and the \
recursive verifier circuit is compiled for it three times in-process (fresh hash seeds per map); oracle: equal digests \
of the operation list (kinds, slots, constants, executor ids, in order), witness count, public and private rows. \
Non-trivial = every shape that could be prepared; distinct on the shape classes";

pub fn oracle_vc(c: &VCase) -> Report {
    // each call proves the shape afresh (proof-of-work grinding may pick another witness, so the
    // proof VALUES may differ between calls); the circuit is built from the proof's shape only,
    // so its digest must not
    let one = || crate::checks::c14::verifier_circuit_digest(&c.shape, c.seed_a, c.seed_b);
    let first = match one() {
        Ok(x) => x,
        Err(e) => return Report::discard(format!("shape not preparable: {}", e.chars().take(60).collect::<String>())),
    };
    let mut rep = Report::pass().classes(first.2.clone()).nontrivial(true).key(hash_of(&first.2));
    for round in 1..3 {
        match one() {
            Ok(x) if x.0 == first.0 && x.1 == first.1 => {}
            Ok(x) => {
                rep.verdict = crate::fw::Verdict::Fail {
                    sig: "C18/verifier-circuit:derivation-differs".into(),
                    msg: format!(
                        "compilation #{round} of the verifier circuit for one proof shape differs from the first: {} ops digest {:016x} vs {} ops digest {:016x}; classes {:?}",
                        x.1, x.0, first.1, first.0, first.2
                    ),
                };
                return rep;
            }
            Err(e) => {
                rep.verdict = crate::fw::Verdict::Fail {
                    sig: "C18/verifier-circuit:second-compilation-failed".into(),
                    msg: e,
                };
                return rep;
            }
        }
    }
    rep.class("outcome:three-compilations-equal")
}

fn vc_strategy() -> impl Strategy<Value = VCase> {
    (crate::checks::c14::shape_strategy(), any::<u64>(), any::<u64>()).prop_map(|(shape, seed_a, seed_b)| VCase { shape, seed_a, seed_b })
}

pub fn run(ctx: &Ctx) {
    ctx.assume("hash seeds and thread interleavings are sampled by the runtime, not controlled");
    ctx.assume("proof bytes are not compared (parallel proof-of-work grinding may return any valid witness); the property names the operation list, numbering, preprocessed columns, table order and preprocessed commitment");
    ctx.shrink_iters.store(300, std::sync::atomic::Ordering::Relaxed);
    let n = ctx.tier.pick(4000, 150_000);
    ctx.explore("in-process", RULE, n, || strategy(false, 30), oracle);
    let n2 = ctx.tier.pick(250, 6000);
    ctx.explore("processes", RULE, n2, || strategy(true, 16), oracle);
    let n3 = ctx.tier.pick(600, 20_000);
    ctx.explore("two-perm-tables", RULE_TABLES, n3, tables_strategy, oracle_tables);
    let n4 = ctx.tier.pick(160, 6000);
    ctx.explore("verifier-circuits", RULE_VC, n4, vc_strategy, oracle_vc);
}
