//! C18 — compilation and key generation are deterministic.
//!
//! The same program is compiled repeatedly — in one process (every hashbrown map gets a
//! fresh random state) and in freshly spawned child processes (fresh ASLR / hash seeds, and
//! different rayon thread counts) — and a canonical digest of everything a prover and a
//! verifier must agree on is compared.

use std::hash::{Hash, Hasher};
use std::io::Write;
use std::process::{Command, Stdio};

use proptest::prelude::*;
use serde::{Deserialize, Serialize};

use crate::checks::c10::{Case as C10Case, packing};
use crate::dispatch_field;
use crate::e1::{self, Built, GenOpts, Prog};
use crate::fw::{Ctx, Report, hash_of};
use crate::pv::{NpoSel, Pv};

#[derive(Clone, Debug, Serialize, Deserialize, Hash)]
pub struct Case {
    pub prog: Prog,
    pub public_lanes: u8,
    pub alu_lanes: u8,
    pub horner_k: u8,
    /// also compare across child processes (expensive: only in the `processes` sub-check)
    pub processes: bool,
}

pub const RULE: &str = "random source programs (recompose std/coeff NPO tables on/off, many connect classes) x \
packing, compiled 6 times in-process (fresh hash seeds per map) and, in the `processes` sub-check, in 3 freshly \
spawned child processes with RAYON_NUM_THREADS in {1,3,16}; oracle: equality of a canonical digest of ops (kinds, \
slots, executor type ids, in order), witness count, public/private rows, sorted expr_to_widx and witness_rewrite, \
generator order, ordered table degrees, every preprocessed column, the preprocessed commitment and (child \
processes) the execution traces; non-trivial = program with a non-primitive table or >= 3 connect classes; distinct on \
(program hash, packing)";

/// Canonical digest of one compilation (+ key generation, + proof when `prove`).
/// `level` 1: circuit + table degrees + preprocessed columns; 2: + preprocessed commitment;
/// 3: + the execution traces.
pub fn digest<C: Pv>(c: &Case, level: u8) -> Result<Vec<(String, u64)>, String> {
    let built: Built<C> = e1::interpret::<C>(&c.prog, e1::Excl::ALL_SAT);
    let Built {
        builder,
        publics,
        privates,
        ..
    } = built;
    let circuit = builder.build().map_err(|e| format!("build: {e:?}"))?;
    let mut out = vec![];
    let h = |s: &dyn Fn(&mut std::collections::hash_map::DefaultHasher)| {
        let mut hs = std::collections::hash_map::DefaultHasher::new();
        s(&mut hs);
        hs.finish()
    };
    out.push((
        "ops".to_string(),
        h(&|hs| {
            for op in &circuit.ops {
                e1::fmt_op::<C>(op).hash(hs);
            }
        }),
    ));
    out.push((
        "layout".to_string(),
        h(&|hs| {
            circuit.witness_count.hash(hs);
            circuit.public_rows.iter().for_each(|w| w.0.hash(hs));
            circuit.private_input_rows.iter().for_each(|w| w.0.hash(hs));
            let mut m: Vec<(u32, u32)> = circuit.expr_to_widx.iter().map(|(e, w)| (e.0, w.0)).collect();
            m.sort();
            m.hash(hs);
            let mut r: Vec<(u32, u32)> = circuit
                .witness_rewrite
                .iter()
                .flatten()
                .map(|(a, b)| (a.0, b.0))
                .collect();
            r.sort();
            r.hash(hs);
            for t in &circuit.non_primitive_trace_generator_order {
                t.as_str().hash(hs);
            }
        }),
    ));
    let pk = packing(&C10Case {
        prog: Prog {
            field: 0,
            recompose_npo: false,
            stmts: vec![],
        },
        public_lanes: c.public_lanes,
        alu_lanes: c.alu_lanes,
        horner_k: c.horner_k,
        log_min_height: 0,
    });
    let npo = NpoSel {
        recompose: c.prog.recompose_npo,
        debug_lookups: false,
        poseidon2: None,
        poseidon1: None,
    };
    let setup = match C::setup(&circuit, &pk, &npo) {
        Ok(s) => s,
        Err(e) => {
            // a setup error must be deterministic too
            out.push(("setup-error".into(), hash_of(&format!("{}:{}", e.kind(), e.msg()))));
            return Ok(out);
        }
    };
    out.push(("degrees".into(), hash_of(&setup.degrees)));
    out.push((
        "preprocessed".into(),
        h(&|hs| {
            for col in &setup.cpd.primitive_columns {
                format!("{col:?}").hash(hs);
            }
            let mut keys: Vec<_> = setup.cpd.non_primitive_columns.keys().cloned().collect();
            keys.sort();
            for k in keys {
                k.as_str().hash(hs);
                format!("{:?}", setup.cpd.non_primitive_columns[&k]).hash(hs);
            }
        }),
    ));
    if level >= 2 {
        out.push(("commitment".into(), hash_of(&C::commitment_string(&setup))));
    }
    if level >= 3 {
        let mut runner = circuit.runner();
        let run = runner
            .set_public_inputs(&publics)
            .and_then(|_| runner.set_private_inputs(&privates))
            .and_then(|_| runner.run());
        match run {
            Ok(traces) => {
                // (proof bytes are deliberately not compared: proof-of-work grinding searches in
                // parallel and may return any valid witness)
                out.push((
                    "traces".into(),
                    hash_of(&format!(
                        "{:?}|{:?}|{:?}|{:?}",
                        traces.const_trace.values.iter().map(C::coeffs).collect::<Vec<_>>(),
                        traces.public_trace.values.iter().map(C::coeffs).collect::<Vec<_>>(),
                        traces.alu_trace.values.iter().map(|r| r.iter().map(C::coeffs).collect::<Vec<_>>()).collect::<Vec<_>>(),
                        traces.alu_trace.indices.iter().map(|r| r.iter().map(|w| w.0).collect::<Vec<_>>()).collect::<Vec<_>>(),
                    )),
                ));
            }
            Err(e) => out.push(("run-error".into(), hash_of(&format!("{e:?}")))),
        }
    }
    Ok(out)
}

pub fn digest_any(c: &Case, level: u8) -> Result<Vec<(String, u64)>, String> {
    dispatch_field!(c.prog.field as usize, C => digest::<C>(c, level))
}

/// Entry point of the child process (`verif __c18-child`): case JSON on stdin, digest on stdout.
pub fn child_main() -> i32 {
    let mut s = String::new();
    if std::io::Read::read_to_string(&mut std::io::stdin(), &mut s).is_err() {
        return 2;
    }
    let Ok(c) = serde_json::from_str::<Case>(&s) else {
        return 2;
    };
    match crate::fw::catch(|| digest_any(&c, 3)) {
        Ok(Ok(d)) => {
            println!("{}", serde_json::to_string(&d).unwrap());
            0
        }
        Ok(Err(e)) => {
            println!("{}", serde_json::to_string(&vec![("error".to_string(), hash_of(&e))]).unwrap());
            0
        }
        Err(p) => {
            println!("{}", serde_json::to_string(&vec![("panic".to_string(), hash_of(&crate::fw::sig_of_panic(&p)))]).unwrap());
            0
        }
    }
}

fn run_child(c: &Case, rayon_threads: u32) -> Result<Vec<(String, u64)>, String> {
    let exe = std::env::current_exe().map_err(|e| e.to_string())?;
    let mut child = Command::new(exe)
        .arg("__c18-child")
        .env("RAYON_NUM_THREADS", rayon_threads.to_string())
        .stdin(Stdio::piped())
        .stdout(Stdio::piped())
        .stderr(Stdio::null())
        .spawn()
        .map_err(|e| e.to_string())?;
    child
        .stdin
        .take()
        .unwrap()
        .write_all(serde_json::to_string(c).unwrap().as_bytes())
        .map_err(|e| e.to_string())?;
    let out = child.wait_with_output().map_err(|e| e.to_string())?;
    if !out.status.success() {
        return Err(format!("child exited with {:?}", out.status));
    }
    serde_json::from_slice(&out.stdout).map_err(|e| format!("child output: {e}"))
}

fn first_diff(a: &[(String, u64)], b: &[(String, u64)]) -> Option<String> {
    if a.len() != b.len() {
        return Some("component-count".into());
    }
    a.iter()
        .zip(b)
        .find(|(x, y)| x != y)
        .map(|(x, _)| x.0.clone())
}

pub fn oracle(c: &Case) -> Report {
    let base = match digest_any(c, if c.processes { 3 } else { 2 }) {
        Ok(d) => d,
        Err(e) => return Report::fail("C18/build-error", e),
    };
    let has_npo = c.prog.recompose_npo
        && c.prog
            .stmts
            .iter()
            .any(|s| matches!(s, e1::Stmt::ExtDecomp(_) | e1::Stmt::ExtRecomp(_)));
    let connects = c
        .prog
        .stmts
        .iter()
        .filter(|s| matches!(s, e1::Stmt::Copy(..) | e1::Stmt::Connect(..) | e1::Stmt::AssertZero(_)))
        .count();
    let mut rep = Report::pass()
        .nontrivial(has_npo || connects >= 3)
        .key(hash_of(c))
        .class(if has_npo { "npo-tables:yes" } else { "npo-tables:no" })
        .class(format!("connect-stmts:{}", connects.min(5)));
    for i in 0..5 {
        match digest_any(c, 1) {
            Ok(d) => {
                let n = d.len();
                if let Some(what) = first_diff(&base[..n.min(base.len())], &d) {
                    return Report::fail(
                        format!("C18/in-process-diff:{what}"),
                        format!("rebuild #{i} in the same process differs in component '{what}'"),
                    );
                }
            }
            Err(e) => return Report::fail("C18/in-process-diff:build", e),
        }
    }
    rep = rep.class("schedule:in-process x6");
    if c.processes {
        for threads in [1u32, 3, 16] {
            match run_child(c, threads) {
                Ok(d) => {
                    if let Some(what) = first_diff(&base, &d) {
                        return Report::fail(
                            format!("C18/cross-process-diff:{what}"),
                            format!("child process (RAYON_NUM_THREADS={threads}) differs in component '{what}'"),
                        );
                    }
                }
                Err(e) => return Report::discard(format!("child failed: {e}")),
            }
        }
        rep = rep.class("schedule:child-processes x3 (rayon 1/3/16)");
    }
    rep
}

fn strategy(processes: bool, max_len: usize) -> impl Strategy<Value = Case> {
    (
        e1::prog_strategy(GenOpts {
            violating: false,
            free_connect: true,
            max_len,
            free_horner_weight: 1,
            fields: vec![0, 1, 3, 4, 6],
            ..GenOpts::default()
        }),
        0u8..4,
        0u8..4,
        0u8..3,
    )
        .prop_map(move |(prog, public_lanes, alu_lanes, horner_k)| Case {
            prog,
            public_lanes,
            alu_lanes,
            horner_k,
            processes,
        })
}

pub fn run(ctx: &Ctx) {
    ctx.assume("hash seeds and thread interleavings are sampled by the runtime, not controlled");
    ctx.assume("proof bytes are not compared (parallel proof-of-work grinding may return any valid witness); the property names the operation list, numbering, preprocessed columns, table order and preprocessed commitment");
    ctx.shrink_iters.store(300, std::sync::atomic::Ordering::Relaxed);
    let n = ctx.tier.pick(4000, 150_000);
    ctx.explore("in-process", RULE, n, || strategy(false, 30), oracle);
    let n2 = ctx.tier.pick(250, 6000);
    ctx.explore("processes", RULE, n2, || strategy(true, 16), oracle);
}
