//! E3 — structural mutation of serialised values, addressed by JSON path so that
//! mutations shrink and replay.

use serde_json::Value;

pub type Path = Vec<PathSeg>;

#[derive(Clone, Debug, PartialEq, Eq, Hash, serde::Serialize, serde::Deserialize)]
pub enum PathSeg {
    Key(String),
    Idx(usize),
}

/// Path with indices erased, e.g. `non_primitives[].lanes`.
pub fn class_of(path: &Path) -> String {
    let mut s = String::new();
    for seg in path {
        match seg {
            PathSeg::Key(k) => {
                if !s.is_empty() {
                    s.push('.');
                }
                s.push_str(k);
            }
            PathSeg::Idx(_) => s.push_str("[]"),
        }
    }
    s
}

pub fn path_string(path: &Path) -> String {
    let mut s = String::new();
    for seg in path {
        match seg {
            PathSeg::Key(k) => {
                if !s.is_empty() {
                    s.push('.');
                }
                s.push_str(k);
            }
            PathSeg::Idx(i) => s.push_str(&format!("[{i}]")),
        }
    }
    s
}

/// All scalar leaves (numbers, bools, strings, nulls) in document order.
pub fn leaves(v: &Value) -> Vec<Path> {
    fn go(v: &Value, cur: &mut Path, out: &mut Vec<Path>) {
        match v {
            Value::Object(m) => {
                for (k, x) in m {
                    cur.push(PathSeg::Key(k.clone()));
                    go(x, cur, out);
                    cur.pop();
                }
            }
            Value::Array(a) => {
                for (i, x) in a.iter().enumerate() {
                    cur.push(PathSeg::Idx(i));
                    go(x, cur, out);
                    cur.pop();
                }
            }
            _ => out.push(cur.clone()),
        }
    }
    let mut out = vec![];
    go(v, &mut vec![], &mut out);
    out
}

/// All arrays (paths to them), in document order.
pub fn arrays(v: &Value) -> Vec<Path> {
    fn go(v: &Value, cur: &mut Path, out: &mut Vec<Path>) {
        match v {
            Value::Object(m) => {
                for (k, x) in m {
                    cur.push(PathSeg::Key(k.clone()));
                    go(x, cur, out);
                    cur.pop();
                }
            }
            Value::Array(a) => {
                out.push(cur.clone());
                for (i, x) in a.iter().enumerate() {
                    cur.push(PathSeg::Idx(i));
                    go(x, cur, out);
                    cur.pop();
                }
            }
            _ => {}
        }
    }
    let mut out = vec![];
    go(v, &mut vec![], &mut out);
    out
}

pub fn get<'a>(v: &'a Value, path: &Path) -> Option<&'a Value> {
    let mut cur = v;
    for seg in path {
        cur = match seg {
            PathSeg::Key(k) => cur.get(k)?,
            PathSeg::Idx(i) => cur.get(*i)?,
        };
    }
    Some(cur)
}

pub fn get_mut<'a>(v: &'a mut Value, path: &Path) -> Option<&'a mut Value> {
    let mut cur = v;
    for seg in path {
        cur = match seg {
            PathSeg::Key(k) => cur.get_mut(k)?,
            PathSeg::Idx(i) => cur.get_mut(*i)?,
        };
    }
    Some(cur)
}
