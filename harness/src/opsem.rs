//! Independent semantics of the *emitted* operation list (`Circuit::ops`).
//!
//! `ops_sat` judges an arbitrary witness assignment against the relation each op kind is
//! documented to enforce (`p3_circuit::Op` docs); it does not use the runner.  `definers` /
//! `propagate` re-derive an assignment from pinned slot values by executing the op list in
//! order the way an honest witness generator would, but *without* any conflict check, so
//! that exactly the relations present in the op list decide what is consistent.

use std::collections::HashMap;

use p3_circuit::ops::NpoTypeId;
use p3_circuit::{AluOpKind, Circuit, Op};
use p3_field::{Field, PrimeCharacteristicRing};

use crate::fields::Fc;

/// A violated op relation.
#[derive(Clone, Debug)]
pub struct OpViolation {
    pub op_index: usize,
    pub what: String,
}

fn is_recompose(t: &NpoTypeId) -> bool {
    *t == NpoTypeId::recompose() || *t == NpoTypeId::recompose_with_coeff_lookups()
}

/// Does `w` satisfy every relation of `circuit.ops`?  Returns the first violation.
///
/// * `Const`: `w[out] = val`; `Public`: none (free input);
/// * `Add`: `a+b=out`; `Mul`: `a*b=out`; `MulAdd`: `a*b+c=out` (`intermediate_out` is not
///   a relation — no table contains it); `HornerAcc`: `acc*b+c-a=out` with the accumulator
///   slot carried in `intermediate_out`; `BoolCheck`: `a in {0,1}` and `out = a`;
/// * `Hint`: none; recompose NPO: `out = sum_i coeff0(in_i) * e_i`.
pub fn ops_sat<C: Fc>(circuit: &Circuit<C::EF>, w: &[C::EF]) -> Result<(), OpViolation> {
    let g = |id: p3_circuit::WitnessId| w[id.0 as usize];
    for (i, op) in circuit.ops.iter().enumerate() {
        let bad = |what: &str| {
            Err(OpViolation {
                op_index: i,
                what: what.to_string(),
            })
        };
        match op {
            Op::Const { out, val } => {
                if g(*out) != *val {
                    return bad("Const");
                }
            }
            Op::Public { .. } => {}
            Op::Alu {
                kind,
                a,
                b,
                c,
                out,
                intermediate_out,
            } => {
                let (av, bv, ov) = (g(*a), g(*b), g(*out));
                let cv = c.map(g).unwrap_or(C::EF::ZERO);
                let ok = match kind {
                    AluOpKind::Add => av + bv == ov,
                    AluOpKind::Mul => av * bv == ov,
                    AluOpKind::MulAdd => av * bv + cv == ov,
                    AluOpKind::BoolCheck => (av == C::EF::ZERO || av == C::EF::ONE) && ov == av,
                    AluOpKind::HornerAcc => {
                        let acc = g(intermediate_out.expect("HornerAcc has an accumulator"));
                        acc * bv + cv - av == ov
                    }
                };
                if !ok {
                    return bad(&format!("{kind:?}"));
                }
            }
            Op::Hint { .. } => {}
            Op::NonPrimitiveOpWithExecutor {
                inputs,
                outputs,
                executor,
                ..
            } => {
                if is_recompose(executor.op_type()) {
                    let cs: Vec<u64> = inputs[0].iter().map(|x| C::coeffs(&g(*x))[0]).collect();
                    if g(outputs[0][0]) != C::ef(&cs) {
                        return bad("Recompose");
                    }
                }
            }
        }
    }
    Ok(())
}

/// Which slot does each op *define* in an honest execution (first writer wins)?
/// Returns, per op index, the list of slots it defines, and the set of input slots
/// (public / private) that are defined by no op.
pub fn definers<F: Field>(circuit: &Circuit<F>) -> Vec<Vec<u32>> {
    let n = circuit.witness_count as usize;
    let mut set = vec![false; n];
    for w in circuit.public_rows.iter().chain(&circuit.private_input_rows) {
        set[w.0 as usize] = true;
    }
    let mut out = vec![vec![]; circuit.ops.len()];
    for (i, op) in circuit.ops.iter().enumerate() {
        fn def_in(set: &mut [bool], s: u32, out: &mut Vec<u32>) {
            if !set[s as usize] {
                set[s as usize] = true;
                out.push(s);
            }
        }
        match op {
            Op::Const { out: o, .. } => def_in(&mut set, o.0, &mut out[i]),
            Op::Public { .. } => {}
            Op::Alu {
                kind,
                b,
                out: o,
                intermediate_out,
                ..
            } => match kind {
                AluOpKind::Add | AluOpKind::Mul => {
                    if !set[b.0 as usize] {
                        def_in(&mut set, b.0, &mut out[i]);
                    } else {
                        def_in(&mut set, o.0, &mut out[i]);
                    }
                }
                AluOpKind::MulAdd => {
                    if let Some(io) = intermediate_out {
                        def_in(&mut set, io.0, &mut out[i]);
                    }
                    def_in(&mut set, o.0, &mut out[i]);
                }
                _ => def_in(&mut set, o.0, &mut out[i]),
            },
            Op::Hint { outputs, .. } => {
                for o in outputs {
                    def_in(&mut set, o.0, &mut out[i]);
                }
            }
            Op::NonPrimitiveOpWithExecutor { outputs, .. } => {
                for o in outputs.iter().flatten() {
                    def_in(&mut set, o.0, &mut out[i]);
                }
            }
        }
    }
    out
}

/// Re-derive an assignment: start from `w0`, overwrite the pinned slots, then execute the
/// op list in order, letting every op recompute the slots it defines (except pinned ones)
/// from the current values.  No conflict checks — what is inconsistent afterwards is
/// exactly what `ops_sat` reports.
pub fn propagate<C: Fc>(
    circuit: &Circuit<C::EF>,
    w0: &[C::EF],
    pins: &HashMap<u32, C::EF>,
) -> Vec<C::EF> {
    let defs = definers(circuit);
    let mut w = w0.to_vec();
    for (s, v) in pins {
        w[*s as usize] = *v;
    }
    for (i, op) in circuit.ops.iter().enumerate() {
        let mine: Vec<u32> = defs[i]
            .iter()
            .copied()
            .filter(|s| !pins.contains_key(s))
            .collect();
        if mine.is_empty() {
            continue;
        }
        match op {
            Op::Const { out, val } => w[out.0 as usize] = *val,
            Op::Public { .. } => {}
            Op::Alu {
                kind,
                a,
                b,
                c,
                out,
                intermediate_out,
            } => {
                let (av, bv, ov) = (w[a.0 as usize], w[b.0 as usize], w[out.0 as usize]);
                let cv = c.map(|x| w[x.0 as usize]).unwrap_or(C::EF::ZERO);
                match kind {
                    AluOpKind::Add => {
                        if mine.contains(&b.0) {
                            w[b.0 as usize] = ov - av;
                        } else {
                            w[out.0 as usize] = av + bv;
                        }
                    }
                    AluOpKind::Mul => {
                        if mine.contains(&b.0) {
                            if let Some(inv) = av.try_inverse() {
                                w[b.0 as usize] = ov * inv;
                            }
                        } else {
                            w[out.0 as usize] = av * bv;
                        }
                    }
                    AluOpKind::MulAdd => {
                        if let Some(io) = intermediate_out {
                            if mine.contains(&io.0) {
                                w[io.0 as usize] = av * bv;
                            }
                        }
                        if mine.contains(&out.0) {
                            w[out.0 as usize] = av * bv + cv;
                        }
                    }
                    AluOpKind::BoolCheck => w[out.0 as usize] = av,
                    AluOpKind::HornerAcc => {
                        let acc = w[intermediate_out.unwrap().0 as usize];
                        w[out.0 as usize] = acc * bv + cv - av;
                    }
                }
            }
            Op::Hint {
                inputs,
                outputs,
                executor,
            } => {
                let mut opt: Vec<Option<C::EF>> = w.iter().map(|x| Some(*x)).collect();
                for o in outputs {
                    if mine.contains(&o.0) {
                        opt[o.0 as usize] = None;
                    }
                }
                // a conflict on a pinned output is expected; keep whatever was written
                let _ = executor.execute(inputs, outputs, &mut opt);
                for o in outputs {
                    if mine.contains(&o.0) {
                        if let Some(v) = opt[o.0 as usize] {
                            w[o.0 as usize] = v;
                        }
                    }
                }
            }
            Op::NonPrimitiveOpWithExecutor {
                inputs,
                outputs,
                executor,
                ..
            } => {
                if is_recompose(executor.op_type()) {
                    let cs: Vec<u64> = inputs[0]
                        .iter()
                        .map(|x| C::coeffs(&w[x.0 as usize])[0])
                        .collect();
                    w[outputs[0][0].0 as usize] = C::ef(&cs);
                }
            }
        }
    }
    w
}

/// Product slots of fused `MulAdd` ops that no other op or input refers to.  They appear in
/// no table by design (the fused relation `a*b+c=out` replaces `m=a*b; out=m+c`), so their
/// value is "don't care": nothing observable depends on it.
pub fn orphan_intermediates<F: Field>(circuit: &Circuit<F>) -> std::collections::HashSet<u32> {
    let mut refs: HashMap<u32, usize> = HashMap::new();
    let mut io: Vec<u32> = vec![];
    for w in circuit.public_rows.iter().chain(&circuit.private_input_rows) {
        *refs.entry(w.0).or_default() += 1;
    }
    for op in &circuit.ops {
        match op {
            Op::Const { out, .. } | Op::Public { out, .. } => *refs.entry(out.0).or_default() += 1,
            Op::Alu { kind, a, b, c, out, intermediate_out } => {
                for w in [Some(*a), Some(*b), *c, Some(*out)].into_iter().flatten() {
                    *refs.entry(w.0).or_default() += 1;
                }
                if let Some(x) = intermediate_out {
                    if *kind == AluOpKind::MulAdd {
                        io.push(x.0);
                    } else {
                        *refs.entry(x.0).or_default() += 1;
                    }
                }
            }
            Op::Hint { inputs, outputs, .. } => {
                for w in inputs.iter().chain(outputs) {
                    *refs.entry(w.0).or_default() += 1;
                }
            }
            Op::NonPrimitiveOpWithExecutor { inputs, outputs, .. } => {
                for w in inputs.iter().flatten().chain(outputs.iter().flatten()) {
                    *refs.entry(w.0).or_default() += 1;
                }
            }
        }
    }
    io.into_iter().filter(|s| !refs.contains_key(s)).collect()
}
