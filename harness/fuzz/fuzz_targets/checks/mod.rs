//! Mirrors `crate::checks` of the harness so that `crate::checks::c15::...` paths inside
//! `src/checks/c15.rs` resolve unchanged.
#[path = "../../../src/checks/c15.rs"]
pub mod c15;
