p='recursion/src/verifier/batch_stark.rs'
s=open(p).read()
old='''        if quotient_chunks_targets.len() != quotient_degree {'''
assert old in s
s=s.replace(old,'''        if quotient_chunks_targets.len() < quotient_degree {''')
old2='''        if domains.len() != inst.opened_values_no_lookups.quotient_chunks_targets.len() {'''
assert old2 in s
s=s.replace(old2,'''        if domains.len() > inst.opened_values_no_lookups.quotient_chunks_targets.len() {''')
open(p,'w').write(s)
