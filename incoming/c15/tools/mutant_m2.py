p='recursion/src/verifier/batch_stark.rs'
s=open(p).read()
old='''    if common.lookups.len() != airs.len() {'''
assert old in s
s=s.replace(old,'''    if false && common.lookups.len() != airs.len() {''')
open(p,'w').write(s)
