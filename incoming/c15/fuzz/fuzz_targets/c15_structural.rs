//! libFuzzer target for C15: bytes -> (`arbitrary::Unstructured`) -> the SAME mutation-script
//! type (`checks::c15::Case`) the proptest check generates -> the SAME oracle function
//! (`checks::c15::oracle_with`).  A crash therefore means "property violated" (panic in the
//! recursive-verifier pipeline, weaker circuit, late rejection), not merely "memory unsafety".
//!
//! Signatures listed in `known_findings.json` (found through `VERIF_DIR`, default /verif) are
//! allow-listed, so a campaign does not rediscover one finding forever.  On a violation the
//! target writes `$VERIF_DIR/replays/C15-fuzz-<hash>.json` (a replay file `verif C15 --replay`
//! accepts as is) and aborts, which makes libFuzzer save the input as a crash artefact.
#![no_main]
#![allow(dead_code, unused_imports, clippy::all)]

#[path = "../../src/fw.rs"]
mod fw;
#[path = "../../src/jsonmut.rs"]
mod jsonmut;
mod checks;

use std::sync::OnceLock;

use arbitrary::Unstructured;
use checks::c15::{Case, CountEdit, Mutation, Op};
use libfuzzer_sys::fuzz_target;

fn decode(u: &mut Unstructured<'_>) -> arbitrary::Result<Case> {
    let cfg: u8 = u.int_in_range(0..=(checks::c15::configs().len() as u8 - 1))?;
    let n = u.int_in_range(1..=2usize)?;
    let mut muts = Vec::with_capacity(n);
    for _ in 0..n {
        let class: u16 = u.arbitrary()?;
        let item: u16 = u.arbitrary()?;
        let op = match u.int_in_range(0..=4u8)? {
            0 => Op::Truncate(u.arbitrary()?),
            1 => Op::Extend(u.int_in_range(0..=2u8)?),
            2 => Op::Empty,
            3 => Op::Toggle,
            _ => Op::Count(match u.int_in_range(0..=9u8)? {
                0 => CountEdit::Inc,
                1 => CountEdit::Dec,
                2 => CountEdit::Zero,
                3 => CountEdit::One,
                4 => CountEdit::Double,
                5 => CountEdit::Half,
                6 => CountEdit::Set(u.int_in_range(0..=9u8)?),
                7 => CountEdit::Pow2(*u.choose(&[16u8, 20, 27, 31, 32, 33, 62, 63])?),
                8 => CountEdit::Big(*u.choose(&[27u8, 28, 31, 32, 33, 63, 64, 65, 255])?),
                _ => CountEdit::Max,
            }),
        };
        muts.push(Mutation {
            class,
            item,
            op,
            path: None,
        });
    }
    Ok(Case { cfg, muts })
}

fn known() -> &'static Vec<String> {
    static K: OnceLock<Vec<String>> = OnceLock::new();
    K.get_or_init(|| {
        checks::c15::install_hook();
        fw::load_known()
            .findings
            .into_iter()
            .filter(|k| k.property == "C15" && k.status == "known")
            .map(|k| k.signature)
            .collect()
    })
}

fuzz_target!(|data: &[u8]| {
    let mut u = Unstructured::new(data);
    let Ok(case) = decode(&mut u) else { return };
    let known = known();
    let rep = match fw::catch(|| checks::c15::oracle_with(known, &case)) {
        Ok(r) => r,
        Err(msg) => fw::Report::fail(format!("harness-panic:{}", fw::sig_of_panic(&msg)), msg),
    };
    if let fw::Verdict::Fail { sig, msg } = &rep.verdict {
        if known.iter().any(|k| k == sig) {
            return;
        }
        let case_v = serde_json::to_value(&case).unwrap();
        let rf = fw::ReplayFile {
            property: "C15".into(),
            sub: "structural".into(),
            signature: sig.clone(),
            message: msg.chars().take(4000).collect(),
            seed: 0,
            case: case_v.clone(),
        };
        let dir = fw::verif_dir().join("replays");
        let _ = std::fs::create_dir_all(&dir);
        let path = dir.join(format!("C15-fuzz-{:016x}.json", fw::hash_json(&case_v)));
        let _ = std::fs::write(&path, serde_json::to_string_pretty(&rf).unwrap());
        eprintln!("VIOLATION property=C15 replay={}\n  sig={sig}\n  {}", path.display(), msg.lines().take(4).collect::<Vec<_>>().join("\n  "));
        std::process::abort();
    }
});
