//! C20 — verifier arithmetic gadgets equal their native counterparts.
//!
//! One sub-check per gadget.  Every sub-check builds the gadget in a fresh `CircuitBuilder` with
//! its inputs as public inputs, runs `CircuitRunner`, reads the value of the output target(s)
//! from the witness trace and compares it with (a) the native Plonky3 computation and (b) a
//! second reference written here from the mathematical meaning.  (a) and (b) must agree with
//! each other too (`C20/selfcheck:*` otherwise), so a mistake in the reference cannot hide a
//! difference.
//!
//! | sub | gadget | native |
//! |---|---|---|
//! | `selectors` | `RecursivePcs::selectors_at_point_circuit` (TwoAdicFriPcs and HidingFriPcs impls), `verifier::verif_hooks::vanishing_poly_at_point_circuit` | `PolynomialSpace::{selectors_at_point, vanishing_poly_at_point}` |
//! | `quotient` | `recompose_quotient_from_chunks_circuit` (ZK doubling = HidingFriPcs configs) | `p3_uni_stark::recompose_quotient_from_chunks` + explicit formula |
//! | `periodic` | `verif_hooks::evaluate_periodic_columns_circuit` / `RecursivePcs::evaluate_periodic_columns_at_point_circuit` | `PolynomialSpace::evaluate_periodic_column_at` + naive Lagrange |
//! | `poly-eval` | `pcs::fri::verif_hooks::evaluate_polynomial` | Horner over p3-field |
//! | `exp` | `circuit_exp_by_constant`, `CircuitBuilder::exp_power_of_2` | `exp_u64` |
//! | `final-query-point` | `compute_final_query_point` | `two_adic_generator(h)^rev(index >> consumed)` as in `p3_fri::verifier` |
//! | `eval-points` | `precompute_evaluation_points` | `GENERATOR * two_adic_generator(h)^rev(index >> (H-h))` as in `p3_fri::verifier::open_input` |

use std::collections::BTreeMap;

use p3_circuit::{CircuitBuilder, ExprId};
use p3_commit::PolynomialSpace;
use p3_field::coset::TwoAdicMultiplicativeCoset;
use p3_field::{BasedVectorSpace, ExtensionField, Field, PrimeCharacteristicRing, PrimeField64, TwoAdicField};
use p3_recursion::pcs::fri::verif_hooks as fri_hooks;
use p3_recursion::types::RecursiveLagrangeSelectors;
use p3_recursion::verifier::verif_hooks as ver_hooks;
use p3_recursion::verifier::{VerificationError, recompose_quotient_from_chunks_circuit};
use proptest::prelude::*;
use serde::{Deserialize, Serialize};

use crate::fw::{Ctx, Report, catch, hash_of, pick, sig_of_panic};

type Coset<F> = TwoAdicMultiplicativeCoset<F>;

// =====================================================================================
// Configurations
// =====================================================================================

/// The PCS-dependent gadgets of one configuration (field, extension, PCS type).
pub trait G: 'static {
    type F: TwoAdicField + PrimeField64;
    type EF: ExtensionField<Self::F> + TwoAdicField;
    const NAME: &'static str;
    /// `HidingFriPcs` (ZK): the second `RecursivePcs` impl; quotient chunks are doubled.
    const HIDING: bool;

    fn selectors(b: &mut CircuitBuilder<Self::EF>, d: &Coset<Self::F>, p: ExprId) -> RecursiveLagrangeSelectors;
    fn vanishing(b: &mut CircuitBuilder<Self::EF>, d: &Coset<Self::F>, p: ExprId) -> ExprId;
    fn recompose(
        b: &mut CircuitBuilder<Self::EF>,
        domains: &[Coset<Self::F>],
        chunks: &[Vec<ExprId>],
        zeta: ExprId,
    ) -> ExprId;
    fn periodic_via_pcs(
        b: &mut CircuitBuilder<Self::EF>,
        d: &Coset<Self::F>,
        cols: &[Vec<Self::F>],
        p: ExprId,
    ) -> Result<Vec<ExprId>, VerificationError>;
    fn native_recompose(domains: &[Coset<Self::F>], chunks: &[Vec<Self::EF>], zeta: Self::EF) -> Self::EF;
}

macro_rules! impl_cfg {
    ($name:ident, $m:ident, $label:literal, $params:ident, hiding = $hiding:tt, perm = $perm:expr) => {
        pub struct $name;
        #[allow(unused_imports)]
        mod $m {
            pub use p3_fri::{FriParameters, HidingFriPcs, TwoAdicFriPcs};
            pub use p3_recursion::pcs::fri::{
                FriProofTargets, HidingFriProofTargets, InputProofTargets, MerkleCapTargets,
                RecExtensionValMmcs, RecValMmcs, Witness,
            };
            pub use p3_test_utils::$params::*;
            pub use rand::SeedableRng;
            pub use rand::rngs::SmallRng;

            pub type Rv = RecValMmcs<F, DIGEST_ELEMS, MyHash, MyCompress>;
            pub type Ip = InputProofTargets<F, Challenge, Rv>;
            pub type Rem = RecExtensionValMmcs<F, Challenge, DIGEST_ELEMS, Rv>;
            pub type Comm = MerkleCapTargets<F, DIGEST_ELEMS>;
            impl_cfg!(@types $hiding);
            pub type Sc = StarkConfig<ThePcs, Challenge, Challenger>;

            pub fn mk_pcs() -> ThePcs {
                let perm: Perm = $perm;
                let hash = MyHash::new(perm.clone());
                let compress = MyCompress::new(perm.clone());
                let val_mmcs = MyMmcs::new(hash, compress, 0);
                let challenge_mmcs = ChallengeMmcs::new(val_mmcs.clone());
                let fri_params = FriParameters::new_testing(challenge_mmcs, 0);
                impl_cfg!(@new $hiding, val_mmcs, fri_params)
            }
        }

        impl G for $name {
            type F = $m::F;
            type EF = $m::Challenge;
            const NAME: &'static str = $label;
            const HIDING: bool = $hiding;

            fn selectors(b: &mut CircuitBuilder<Self::EF>, d: &Coset<Self::F>, p: ExprId) -> RecursiveLagrangeSelectors {
                let pcs = $m::mk_pcs();
                <$m::ThePcs as p3_recursion::traits::RecursivePcs<
                    $m::Sc,
                    $m::Ip,
                    $m::Op,
                    $m::Comm,
                    Coset<Self::F>,
                >>::selectors_at_point_circuit(&pcs, b, d, &p)
            }
            fn vanishing(b: &mut CircuitBuilder<Self::EF>, d: &Coset<Self::F>, p: ExprId) -> ExprId {
                let pcs = $m::mk_pcs();
                ver_hooks::vanishing_poly_at_point_circuit::<$m::Sc, $m::Ip, $m::Op, $m::Comm>(&pcs, d, p, b)
            }
            fn recompose(
                b: &mut CircuitBuilder<Self::EF>,
                domains: &[Coset<Self::F>],
                chunks: &[Vec<ExprId>],
                zeta: ExprId,
            ) -> ExprId {
                let pcs = $m::mk_pcs();
                recompose_quotient_from_chunks_circuit::<$m::Sc, $m::Ip, $m::Op, $m::Comm, Coset<Self::F>>(
                    b, domains, chunks, zeta, &pcs,
                )
            }
            fn periodic_via_pcs(
                b: &mut CircuitBuilder<Self::EF>,
                d: &Coset<Self::F>,
                cols: &[Vec<Self::F>],
                p: ExprId,
            ) -> Result<Vec<ExprId>, VerificationError> {
                let pcs = $m::mk_pcs();
                <$m::ThePcs as p3_recursion::traits::RecursivePcs<
                    $m::Sc,
                    $m::Ip,
                    $m::Op,
                    $m::Comm,
                    Coset<Self::F>,
                >>::evaluate_periodic_columns_at_point_circuit(&pcs, b, d, cols, p)
            }
            fn native_recompose(domains: &[Coset<Self::F>], chunks: &[Vec<Self::EF>], zeta: Self::EF) -> Self::EF {
                p3_uni_stark::recompose_quotient_from_chunks::<$m::Sc>(domains, chunks, zeta)
            }
        }
    };
    (@types false) => {
        pub type ThePcs = TwoAdicFriPcs<F, Dft, MyMmcs, ChallengeMmcs>;
        pub type Op = FriProofTargets<F, Challenge, Rem, Ip, Witness<F>>;
    };
    (@types true) => {
        pub type ThePcs = HidingFriPcs<F, Dft, MyMmcs, ChallengeMmcs, SmallRng>;
        pub type Op = HidingFriProofTargets<F, Challenge, Rem, Ip, Witness<F>>;
    };
    (@new false, $val_mmcs:ident, $fri_params:ident) => {
        ThePcs::new(Dft::default(), $val_mmcs, $fri_params)
    };
    (@new true, $val_mmcs:ident, $fri_params:ident) => {
        ThePcs::new(Dft::default(), $val_mmcs, $fri_params, 2, SmallRng::seed_from_u64(1))
    };
}

impl_cfg!(Bb4, bb4, "babybear-d4", baby_bear_params, hiding = false, perm = default_babybear_poseidon2_16());
impl_cfg!(Kb4, kb4, "koalabear-d4", koala_bear_params, hiding = false, perm = default_koalabear_poseidon2_16());
impl_cfg!(Gl2, gl2, "goldilocks-d2", goldilocks_params, hiding = false,
    perm = Poseidon2Goldilocks::<8>::new_from_rng_128(&mut SmallRng::seed_from_u64(1)));
impl_cfg!(Bb4Zk, bb4zk, "babybear-d4-hiding", baby_bear_params, hiding = true, perm = default_babybear_poseidon2_16());
impl_cfg!(Kb4Zk, kb4zk, "koalabear-d4-hiding", koala_bear_params, hiding = true, perm = default_koalabear_poseidon2_16());
impl_cfg!(Gl2Zk, gl2zk, "goldilocks-d2-hiding", goldilocks_params, hiding = true,
    perm = Poseidon2Goldilocks::<8>::new_from_rng_128(&mut SmallRng::seed_from_u64(1)));
impl_cfg!(Kb5, kb5, "koalabear-quintic-d5", koala_bear_quintic_params, hiding = false, perm = default_koalabear_poseidon2_16());

pub const N_CFG: u8 = 7;

macro_rules! with_cfg {
    ($idx:expr, $C:ident => $body:expr) => {{
        match $idx % N_CFG {
            0 => { type $C = Bb4; $body }
            1 => { type $C = Kb4; $body }
            2 => { type $C = Gl2; $body }
            3 => { type $C = Bb4Zk; $body }
            4 => { type $C = Kb4Zk; $body }
            5 => { type $C = Gl2Zk; $body }
            _ => { type $C = Kb5; $body }
        }
    }};
}

// =====================================================================================
// Shared helpers
// =====================================================================================

fn splitmix(x: &mut u64) -> u64 {
    *x = x.wrapping_add(0x9E3779B97F4A7C15);
    let mut z = *x;
    z = (z ^ (z >> 30)).wrapping_mul(0xBF58476D1CE4E5B9);
    z = (z ^ (z >> 27)).wrapping_mul(0x94D049BB133111EB);
    z ^ (z >> 31)
}

fn rnd_f<F: PrimeField64>(s: &mut u64) -> F {
    F::from_u64(splitmix(s))
}

fn rnd_f_nonzero<F: PrimeField64>(s: &mut u64) -> F {
    loop {
        let v: F = rnd_f(s);
        if !v.is_zero() {
            return v;
        }
    }
}

fn rnd_ef<F: PrimeField64, EF: ExtensionField<F>>(s: &mut u64) -> EF {
    EF::from_basis_coefficients_fn(|_| rnd_f::<F>(s))
}

fn coeffs<F: PrimeField64, EF: ExtensionField<F>>(x: &EF) -> Vec<u64> {
    x.as_basis_coefficients_slice().iter().map(|c| c.as_canonical_u64()).collect()
}

fn show<F: PrimeField64, EF: ExtensionField<F>>(x: &Option<EF>) -> String {
    match x {
        Some(v) => format!("{:?}", coeffs::<F, EF>(v)),
        None => "undefined".into(),
    }
}

/// Bit reversal of the low `bits` bits of `x` (own implementation, not p3-util's).
fn rev_bits(x: u64, bits: usize) -> u64 {
    let mut r = 0u64;
    for i in 0..bits {
        if (x >> i) & 1 == 1 {
            r |= 1 << (bits - 1 - i);
        }
    }
    r
}

#[derive(Clone, Copy, Debug, Serialize, Deserialize, Hash, PartialEq, Eq)]
pub enum Shift {
    One,
    Gen,
    Rand,
}

fn shift_strategy() -> impl Strategy<Value = Shift> {
    prop_oneof![Just(Shift::One), Just(Shift::Gen), Just(Shift::Rand)]
}

fn shift_val<F: PrimeField64 + TwoAdicField>(s: Shift, seed: &mut u64) -> F {
    match s {
        Shift::One => F::ONE,
        Shift::Gen => F::GENERATOR,
        Shift::Rand => rnd_f_nonzero(seed),
    }
}

/// Outcome of building + running a gadget circuit.
#[derive(Clone, Debug)]
enum Run<EF> {
    /// run Ok; the values of the requested output targets
    Vals(Vec<EF>),
    /// the gadget itself returned an error at build time (documented rejection)
    GadgetErr(String),
    BuildErr(String),
    /// `CircuitRunner::run`/`set_public_inputs` returned an error (name, message)
    RunErr(String, String),
    /// an output target has no witness slot / no value
    NoWitness(usize),
    Panic(String),
}

impl<EF> Run<EF> {
    fn kind(&self) -> String {
        match self {
            Run::Vals(_) => "ok".into(),
            Run::GadgetErr(_) => "gadget-err".into(),
            Run::BuildErr(_) => "build-err".into(),
            Run::RunErr(n, _) => format!("run-err:{n}"),
            Run::NoWitness(_) => "no-witness".into(),
            Run::Panic(m) => format!("panic:{}", sig_of_panic(m)),
        }
    }
    fn detail(&self) -> String
    where
        EF: core::fmt::Debug,
    {
        match self {
            Run::Vals(_) => "ok".into(),
            Run::GadgetErr(m) | Run::BuildErr(m) | Run::Panic(m) => m.chars().take(300).collect(),
            Run::RunErr(n, m) => format!("{n}: {}", m.chars().take(300).collect::<String>()),
            Run::NoWitness(i) => format!("output {i} has no witness value"),
        }
    }
}

fn err_name(e: &impl core::fmt::Debug) -> String {
    let s = format!("{e:?}");
    s.split(|c: char| !c.is_alphanumeric()).next().unwrap_or("Err").to_string()
}

/// Build the circuit, set `publics`, run, read `outs`.
fn finish_and_run<EF: Field>(b: CircuitBuilder<EF>, publics: &[EF], outs: &[ExprId]) -> Run<EF> {
    let circuit = match b.build() {
        Ok(c) => c,
        Err(e) => return Run::BuildErr(format!("{e:?}")),
    };
    run_built(&circuit, publics, outs)
}

fn run_built<EF: Field>(circuit: &p3_circuit::Circuit<EF>, publics: &[EF], outs: &[ExprId]) -> Run<EF> {
    let mut runner = circuit.runner();
    if let Err(e) = runner.set_public_inputs(publics) {
        return Run::RunErr(err_name(&e), format!("{e:?}"));
    }
    let traces = match runner.run() {
        Ok(t) => t,
        Err(e) => return Run::RunErr(err_name(&e), format!("{e:?}")),
    };
    let mut vals = Vec::with_capacity(outs.len());
    for (i, o) in outs.iter().enumerate() {
        let Some(w) = circuit.expr_to_widx.get(o) else {
            return Run::NoWitness(i);
        };
        match traces.witness_trace.get_value(*w) {
            Some(v) => vals.push(*v),
            None => return Run::NoWitness(i),
        }
    }
    Run::Vals(vals)
}

/// Run `f` (gadget construction + run) catching panics.
fn guarded<EF>(f: impl FnOnce() -> Run<EF>) -> Run<EF> {
    match catch(f) {
        Ok(r) => r,
        Err(m) => Run::Panic(m),
    }
}

fn size_class(log_n: usize) -> &'static str {
    match log_n {
        0 => "n=1",
        1 => "n=2",
        2..=4 => "n=4..16",
        _ => "n>=32",
    }
}

// =====================================================================================
// Sub-check 1: Lagrange selectors + vanishing polynomial
// =====================================================================================

#[derive(Clone, Copy, Debug, Serialize, Deserialize, Hash, PartialEq, Eq)]
pub enum Pt {
    /// random element of the extension field
    Rand,
    /// random element of the base field (embedded)
    Base,
    Zero,
    One,
    /// first point of the domain (`shift`)
    First,
    /// last point of the domain (`shift * h^{-1}`)
    Last,
    /// `shift * h^k`, k = pick(idx, n)
    InDomain(u16),
    /// `shift * w` for a random base-field w outside the subgroup: on no boundary but with
    /// `unshifted_point` in the base field
    CosetBase,
}

impl Pt {
    fn label(self) -> &'static str {
        match self {
            Pt::Rand => "rand-ext",
            Pt::Base => "rand-base",
            Pt::Zero => "zero",
            Pt::One => "one",
            Pt::First => "first-point",
            Pt::Last => "last-point",
            Pt::InDomain(_) => "in-domain",
            Pt::CosetBase => "shifted-base",
        }
    }
}

fn pt_strategy() -> impl Strategy<Value = Pt> {
    prop_oneof![
        6 => Just(Pt::Rand),
        3 => Just(Pt::Base),
        1 => Just(Pt::Zero),
        1 => Just(Pt::One),
        1 => Just(Pt::First),
        1 => Just(Pt::Last),
        2 => any::<u16>().prop_map(Pt::InDomain),
        1 => Just(Pt::CosetBase),
    ]
}

fn pt_val<F: PrimeField64 + TwoAdicField, EF: ExtensionField<F>>(p: Pt, d: &Coset<F>, seed: &mut u64) -> EF {
    match p {
        Pt::Rand => rnd_ef::<F, EF>(seed),
        Pt::Base => EF::from(rnd_f::<F>(seed)),
        Pt::Zero => EF::ZERO,
        Pt::One => EF::ONE,
        Pt::First => EF::from(d.shift()),
        Pt::Last => EF::from(d.shift() * d.subgroup_generator().inverse()),
        Pt::InDomain(i) => {
            let k = pick(i, d.size()) as u64;
            EF::from(d.shift() * d.subgroup_generator().exp_u64(k))
        }
        Pt::CosetBase => EF::from(d.shift() * rnd_f::<F>(seed)),
    }
}

#[derive(Clone, Debug, Serialize, Deserialize, Hash)]
pub struct SelCase {
    pub cfg: u8,
    pub log_n: u8,
    pub shift: Shift,
    pub pt: Pt,
    pub seed: u64,
}

const SEL_RULE: &str = "domain log-size 0..12 x shift {1, generator, random} x point {random ext, random base, 0, 1, \
first, last, in-domain, shift*base} x 7 configurations (3 fields, TwoAdicFriPcs + HidingFriPcs impls, quintic); all four \
selector outputs and the vanishing hook vs PolynomialSpace::{selectors_at_point, vanishing_poly_at_point} and an explicit \
formula; non-trivial = size-1/size-2 domain, or point 0/first/last/in-domain; distinct on the case";

fn sel_strategy() -> impl Strategy<Value = SelCase> {
    (
        0u8..N_CFG,
        prop_oneof![3 => Just(0u8), 2 => Just(1u8), 4 => 2u8..=4, 3 => 5u8..=12],
        shift_strategy(),
        pt_strategy(),
        any::<u64>(),
    )
        .prop_map(|(cfg, log_n, shift, pt, seed)| SelCase { cfg, log_n, shift, pt, seed })
}

/// Explicit reference: (is_first_row, is_last_row, is_transition, inv_vanishing, z_h); `None` =
/// undefined (division by zero).
#[allow(clippy::type_complexity)]
fn sel_reference<F: TwoAdicField + PrimeField64, EF: ExtensionField<F>>(
    d: &Coset<F>,
    point: EF,
) -> (Option<EF>, Option<EF>, EF, Option<EF>, EF) {
    let u = point * EF::from(d.shift().inverse());
    let mut un = u;
    for _ in 0..d.log_size() {
        un = un * un;
    }
    let z = un - EF::ONE;
    let hinv = EF::from(d.subgroup_generator().inverse());
    let first = (u - EF::ONE).try_inverse().map(|i| z * i);
    let last = (u - hinv).try_inverse().map(|i| z * i);
    let trans = u - hinv;
    let invz = z.try_inverse();
    (first, last, trans, invz, z)
}

fn sel_check<C: G>(c: &SelCase) -> Report {
    let mut seed = c.seed;
    let log_n = c.log_n as usize;
    let shift: C::F = shift_val(c.shift, &mut seed);
    let d = Coset::<C::F>::new(shift, log_n).expect("log_n within two-adicity");
    let point: C::EF = pt_val(c.pt, &d, &mut seed);

    let (r_first, r_last, r_trans, r_invz, r_z) = sel_reference::<C::F, C::EF>(&d, point);
    let native_sel = catch(|| d.selectors_at_point(point));
    let native_z = catch(|| d.vanishing_poly_at_point(point));

    let sz = size_class(log_n);
    let bclass = format!("{sz}:{}", c.pt.label());
    let vanishes = r_z.is_zero();
    let mut rep = Report::pass()
        .class(format!("cfg:{}", C::NAME))
        .class(format!("domain:{sz}"))
        .class(format!("point:{}", c.pt.label()))
        .class(format!("shift:{:?}", c.shift))
        .nontrivial(log_n <= 1 || matches!(c.pt, Pt::Zero | Pt::First | Pt::Last | Pt::InDomain(_)))
        .key(hash_of(c));
    if vanishes {
        rep = rep.class("z_h(point)=0");
    }
    let fail = |rep: Report, sig: String, msg: String| -> Report {
        let mut r = rep;
        r.verdict = crate::fw::Verdict::Fail { sig, msg };
        r
    };
    let ctxs = format!(
        "cfg={} log_n={log_n} shift={:?} point={:?}",
        C::NAME,
        shift.as_canonical_u64(),
        coeffs::<C::F, C::EF>(&point)
    );

    // ---- harness self-check: native vs explicit formula --------------------------------
    match (&native_sel, vanishes) {
        (Ok(s), false) => {
            if Some(s.is_first_row) != r_first
                || Some(s.is_last_row) != r_last
                || s.is_transition != r_trans
                || Some(s.inv_vanishing) != r_invz
            {
                return fail(rep, "C20/selfcheck:selectors-reference".into(), format!("native selectors != explicit formula; {ctxs}"));
            }
        }
        (Ok(_), true) => {
            return fail(rep, "C20/selfcheck:native-defined-at-vanishing-point".into(), ctxs);
        }
        (Err(_), true) => rep = rep.class("native:panics(div-by-zero)"),
        (Err(m), false) => {
            return fail(rep, "C20/selfcheck:native-panic-off-domain".into(), format!("{m}; {ctxs}"));
        }
    }
    match &native_z {
        Ok(z) if *z == r_z => {}
        other => {
            return fail(rep, "C20/selfcheck:vanishing-reference".into(), format!("{other:?} vs {:?}; {ctxs}", r_z));
        }
    }

    // ---- circuit A: selectors -----------------------------------------------------------
    let run_a = guarded(|| {
        let mut b = CircuitBuilder::<C::EF>::new();
        let p = b.public_input();
        let s = C::selectors(&mut b, &d, p);
        let outs = [
            s.row_selectors.is_first_row,
            s.row_selectors.is_last_row,
            s.row_selectors.is_transition,
            s.inv_vanishing,
        ];
        finish_and_run(b, &[point], &outs)
    });
    match &run_a {
        Run::Vals(v) => {
            if vanishes {
                // 1/z_h has no value: a run that succeeds has assigned one anyway
                return fail(
                    rep,
                    format!("C20/selectors:run-ok-at-vanishing-point:{bclass}"),
                    format!("runner Ok although z_h(point)=0 (native divides by zero); {ctxs}"),
                );
            }
            let names = ["is_first_row", "is_last_row", "is_transition", "inv_vanishing"];
            let want = [r_first, r_last, Some(r_trans), r_invz];
            for i in 0..4 {
                if Some(v[i]) != want[i] {
                    return fail(
                        rep,
                        format!("C20/selectors:{}:mismatch:{bclass}", names[i]),
                        format!(
                            "{}: circuit {:?} != native {}; {ctxs}",
                            names[i],
                            coeffs::<C::F, C::EF>(&v[i]),
                            show::<C::F, C::EF>(&want[i])
                        ),
                    );
                }
            }
            rep = rep.class("selectors:equal");
        }
        Run::RunErr(n, _) if vanishes => {
            rep = rep.class(format!("selectors@vanishing-point:run-err:{n}"));
        }
        Run::Panic(_) if vanishes => {
            // native panics too; recorded, not a difference
            rep = rep.class(format!("selectors@vanishing-point:{}", run_a.kind()));
        }
        other => {
            return fail(
                rep,
                format!("C20/selectors:{}:{bclass}", other.kind()),
                format!("native defined but circuit {}; {ctxs}", other.detail()),
            );
        }
    }

    // ---- circuit B: vanishing polynomial hook ------------------------------------------
    let run_b = guarded(|| {
        let mut b = CircuitBuilder::<C::EF>::new();
        let p = b.public_input();
        let z = C::vanishing(&mut b, &d, p);
        finish_and_run(b, &[point], &[z])
    });
    match &run_b {
        Run::Vals(v) if v[0] == r_z => rep.class("vanishing:equal"),
        Run::Vals(v) => fail(
            rep,
            format!("C20/vanishing:mismatch:{bclass}"),
            format!("circuit {:?} != native {:?}; {ctxs}", coeffs::<C::F, C::EF>(&v[0]), coeffs::<C::F, C::EF>(&r_z)),
        ),
        other => fail(
            rep,
            format!("C20/vanishing:{}:{bclass}", other.kind()),
            format!("native defined but circuit {}; {ctxs}", other.detail()),
        ),
    }
}

pub fn sel_oracle(c: &SelCase) -> Report {
    with_cfg!(c.cfg, C => sel_check::<C>(c))
}

// =====================================================================================
// Sub-check 2: quotient recomposition from chunks
// =====================================================================================

#[derive(Clone, Copy, Debug, Serialize, Deserialize, Hash, PartialEq, Eq)]
pub enum Zt {
    Rand,
    Base,
    Zero,
    /// a point of quotient chunk domain `pick(chunk)`, index `pick(k)`: Z_chunk(zeta) = 0
    InChunk(u16, u16),
    /// a point of the trace domain
    InTrace(u16),
}

impl Zt {
    fn label(self) -> &'static str {
        match self {
            Zt::Rand => "rand-ext",
            Zt::Base => "rand-base",
            Zt::Zero => "zero",
            Zt::InChunk(..) => "in-chunk-domain",
            Zt::InTrace(_) => "in-trace-domain",
        }
    }
}

#[derive(Clone, Debug, Serialize, Deserialize, Hash)]
pub struct QuoCase {
    pub cfg: u8,
    /// log2 of the (possibly ZK-extended) trace degree, >= 1 for hiding configurations
    pub degree_bits: u8,
    /// log2 of the AIR's number of quotient chunks (before ZK doubling)
    pub log_chunks: u8,
    pub shift: Shift,
    pub zeta: Zt,
    /// 0 random ext values, 1 base-field values, 2 all zero, 3 one non-zero coefficient
    pub chunk_kind: u8,
    pub seed: u64,
}

const QUO_RULE: &str = "trace degree_bits 0..10 x AIR quotient chunks 1,2,4,8 (doubled for the HidingFriPcs \
configurations, as verify_p3_uni_proof_circuit does) x trace shift {1, generator, random}; chunk domains built as the \
native verifier does (create_disjoint_domain + split_domains); zeta {random ext, random base, 0, inside a chunk domain, \
inside the trace domain}; chunk coefficients {ext, base, zero, unit}; vs p3_uni_stark::recompose_quotient_from_chunks \
and the explicit Lagrange formula; non-trivial = single chunk, size-1 chunk domains, or zeta on a domain; distinct on the case";

fn quo_strategy() -> impl Strategy<Value = QuoCase> {
    (
        0u8..N_CFG,
        prop_oneof![3 => Just(0u8), 2 => Just(1u8), 5 => 2u8..=10],
        0u8..=3,
        shift_strategy(),
        prop_oneof![
            6 => Just(Zt::Rand),
            2 => Just(Zt::Base),
            1 => Just(Zt::Zero),
            2 => (any::<u16>(), any::<u16>()).prop_map(|(a, b)| Zt::InChunk(a, b)),
            1 => any::<u16>().prop_map(Zt::InTrace),
        ],
        0u8..4,
        any::<u64>(),
    )
        .prop_map(|(cfg, degree_bits, log_chunks, shift, zeta, chunk_kind, seed)| QuoCase {
            cfg,
            degree_bits,
            log_chunks,
            shift,
            zeta,
            chunk_kind,
            seed,
        })
}

fn quo_check<C: G>(c: &QuoCase) -> Report {
    let mut seed = c.seed;
    let zk = C::HIDING as usize;
    let degree_bits = (c.degree_bits as usize).max(zk);
    let lqd = c.log_chunks as usize;
    let shift: C::F = shift_val(c.shift, &mut seed);
    let trace_domain = Coset::<C::F>::new(shift, degree_bits).expect("within two-adicity");
    // exactly as p3_uni_stark::verify / verify_p3_uni_proof_circuit build them
    let quotient_domain = trace_domain.create_disjoint_domain(1 << (degree_bits + lqd));
    let domains = quotient_domain.split_domains(1 << (lqd + zk));
    let n_chunks = domains.len();
    let chunk_log = domains[0].log_size();
    let dim = <C::EF as BasedVectorSpace<C::F>>::DIMENSION;

    let zeta: C::EF = match c.zeta {
        Zt::Rand => rnd_ef::<C::F, C::EF>(&mut seed),
        Zt::Base => C::EF::from(rnd_f::<C::F>(&mut seed)),
        Zt::Zero => C::EF::ZERO,
        Zt::InChunk(j, k) => {
            let dj = &domains[pick(j, n_chunks)];
            C::EF::from(dj.shift() * dj.subgroup_generator().exp_u64(pick(k, dj.size()) as u64))
        }
        Zt::InTrace(k) => C::EF::from(
            trace_domain.shift() * trace_domain.subgroup_generator().exp_u64(pick(k, trace_domain.size()) as u64),
        ),
    };
    let chunks: Vec<Vec<C::EF>> = (0..n_chunks)
        .map(|_| {
            (0..dim)
                .map(|k| match c.chunk_kind % 4 {
                    0 => rnd_ef::<C::F, C::EF>(&mut seed),
                    1 => C::EF::from(rnd_f::<C::F>(&mut seed)),
                    2 => C::EF::ZERO,
                    _ => {
                        if k == dim - 1 {
                            C::EF::ONE
                        } else {
                            C::EF::ZERO
                        }
                    }
                })
                .collect()
        })
        .collect();

    // explicit reference: Q = sum_i [prod_{j != i} Z_j(zeta) / Z_j(g_i)] * sum_k e_k * ch[i][k]
    let zfun = |d: &Coset<C::F>, x: C::EF| -> C::EF {
        let mut u = x * C::EF::from(d.shift().inverse());
        for _ in 0..d.log_size() {
            u = u * u;
        }
        u - C::EF::ONE
    };
    let mut reference = Some(C::EF::ZERO);
    for i in 0..n_chunks {
        let mut zp = C::EF::ONE;
        for j in 0..n_chunks {
            if j == i {
                continue;
            }
            match zfun(&domains[j], C::EF::from(domains[i].shift())).try_inverse() {
                Some(inv) => zp *= zfun(&domains[j], zeta) * inv,
                None => reference = None,
            }
        }
        let mut ch = C::EF::ZERO;
        for k in 0..dim {
            ch += <C::EF as BasedVectorSpace<C::F>>::ith_basis_element(k).unwrap() * chunks[i][k];
        }
        reference = reference.map(|r| r + zp * ch);
    }
    let native = catch(|| C::native_recompose(&domains, &chunks, zeta));

    let zeta_vanishes_on: Vec<usize> = (0..n_chunks).filter(|&j| zfun(&domains[j], zeta).is_zero()).collect();
    let chunks_class = match n_chunks {
        1 => "chunks=1",
        2 => "chunks=2",
        3..=8 => "chunks=4..8",
        _ => "chunks=16",
    };
    let dom_class = match chunk_log {
        0 => "chunk-domain:n=1",
        1 => "chunk-domain:n=2",
        _ => "chunk-domain:n>=4",
    };
    let bclass = format!("{chunks_class}:{dom_class}:zeta-{}", c.zeta.label());
    let mut rep = Report::pass()
        .class(format!("cfg:{}", C::NAME))
        .class(chunks_class)
        .class(dom_class)
        .class(if zk == 1 { "zk-doubling:yes" } else { "zk-doubling:no" })
        .class(format!("zeta:{}", c.zeta.label()))
        .class(format!("chunk-values:{}", ["ext", "base", "zero", "unit"][(c.chunk_kind % 4) as usize]))
        .nontrivial(n_chunks == 1 || chunk_log == 0 || !zeta_vanishes_on.is_empty() || matches!(c.zeta, Zt::Zero | Zt::InTrace(_)))
        .key(hash_of(c));
    if !zeta_vanishes_on.is_empty() {
        rep = rep.class(format!("Z_j(zeta)=0:{chunks_class}"));
    }
    let fail = |rep: Report, sig: String, msg: String| -> Report {
        let mut r = rep;
        r.verdict = crate::fw::Verdict::Fail { sig, msg };
        r
    };
    let ctxs = format!(
        "cfg={} degree_bits={degree_bits} log_chunks={lqd} zk={zk} n_chunks={n_chunks} chunk_log_size={chunk_log} shift={} zeta={:?} (Z_j(zeta)=0 for j in {:?})",
        C::NAME,
        shift.as_canonical_u64(),
        coeffs::<C::F, C::EF>(&zeta),
        zeta_vanishes_on
    );

    let want = match (&native, reference) {
        (Ok(n), Some(r)) if *n == r => r,
        (n, r) => {
            return fail(
                rep,
                "C20/selfcheck:quotient-reference".into(),
                format!("native {n:?} vs explicit formula {r:?}; {ctxs}"),
            );
        }
    };

    let run = guarded(|| {
        let mut b = CircuitBuilder::<C::EF>::new();
        let z = b.public_input();
        let mut publics = vec![zeta];
        let mut targets = Vec::with_capacity(n_chunks);
        for ch in &chunks {
            let mut t = Vec::with_capacity(dim);
            for v in ch {
                t.push(b.public_input());
                publics.push(*v);
            }
            targets.push(t);
        }
        let q = C::recompose(&mut b, &domains, &targets, z);
        finish_and_run(b, &publics, &[q])
    });
    match &run {
        Run::Vals(v) if v[0] == want => rep.class("quotient:equal"),
        Run::Vals(v) => fail(
            rep,
            format!("C20/quotient:mismatch:{bclass}"),
            format!("circuit {:?} != native {:?}; {ctxs}", coeffs::<C::F, C::EF>(&v[0]), coeffs::<C::F, C::EF>(&want)),
        ),
        Run::RunErr(n, _) if n == "DivisionByZero" && !zeta_vanishes_on.is_empty() && n_chunks > 1 => fail(
            rep,
            "C20/quotient:division-by-zero-at-chunk-domain-point".into(),
            format!(
                "native value {:?} is defined (it never divides by Z_j(zeta)) but the circuit divides the total product by Z_j(zeta) = 0; {ctxs}",
                coeffs::<C::F, C::EF>(&want)
            ),
        ),
        other => fail(
            rep,
            format!("C20/quotient:{}:{bclass}", other.kind()),
            format!(
                "native value {:?} is defined but circuit: {}; {ctxs}",
                coeffs::<C::F, C::EF>(&want),
                other.detail()
            ),
        ),
    }
}

pub fn quo_oracle(c: &QuoCase) -> Report {
    with_cfg!(c.cfg, C => quo_check::<C>(c))
}

// =====================================================================================
// Sub-check 3: periodic columns
// =====================================================================================

#[derive(Clone, Copy, Debug, Serialize, Deserialize, Hash, PartialEq, Eq)]
pub enum ColLen {
    /// period 2^pick(i, min(log_n, 6) + 1)
    Pow(u16),
    /// period = n (capped at 2^8 to bound the cost)
    Full,
    /// period 1
    Const,
    /// invalid: length 3, 5, 6, 7, 12 (not a power of two)
    NonPow2(u8),
    /// invalid: length 2n
    TooLong,
    /// invalid: empty column
    Empty,
}

#[derive(Clone, Copy, Debug, Serialize, Deserialize, Hash, PartialEq, Eq)]
pub enum PPt {
    Rand,
    Base,
    Zero,
    One,
    /// a point of the trace domain (its 2^folds-th power lies on the period sub-coset)
    InDomain(u16),
}

#[derive(Clone, Debug, Serialize, Deserialize, Hash)]
pub struct PerCase {
    pub cfg: u8,
    pub log_n: u8,
    pub shift: Shift,
    /// (length, fill) per column; fill: 0 random, 1 zero, 2 constant, 3 0/1 pattern
    pub cols: Vec<(ColLen, u8)>,
    pub pt: PPt,
    /// call through `RecursivePcs::evaluate_periodic_columns_at_point_circuit` instead of the hook
    pub via_pcs: bool,
    pub seed: u64,
}

const PER_RULE: &str = "trace log-size 0..12 x shift {1, generator, random} x 1-3 columns of period 1..64 (<= n), period = n, \
period 1, and invalid lengths (not a power of two, > n, empty) x point {random ext, random base, 0, 1, in-domain}; through \
the hook and through both RecursivePcs impls; vs PolynomialSpace::evaluate_periodic_column_at and naive Lagrange \
interpolation over the period sub-coset; invalid columns must be rejected by both; non-trivial = period 1, period = n, \
size-1 domain, invalid column or in-domain point; distinct on the case";

fn per_strategy() -> impl Strategy<Value = PerCase> {
    let col = (
        prop_oneof![
            8 => any::<u16>().prop_map(ColLen::Pow),
            3 => Just(ColLen::Full),
            2 => Just(ColLen::Const),
            1 => (0u8..5).prop_map(ColLen::NonPow2),
            1 => Just(ColLen::TooLong),
            1 => Just(ColLen::Empty),
        ],
        0u8..4,
    );
    (
        0u8..N_CFG,
        prop_oneof![2 => Just(0u8), 2 => Just(1u8), 4 => 2u8..=6, 3 => 7u8..=12],
        shift_strategy(),
        proptest::collection::vec(col, 1..=3),
        prop_oneof![
            6 => Just(PPt::Rand),
            2 => Just(PPt::Base),
            1 => Just(PPt::Zero),
            1 => Just(PPt::One),
            2 => any::<u16>().prop_map(PPt::InDomain),
        ],
        any::<bool>(),
        any::<u64>(),
    )
        .prop_map(|(cfg, log_n, shift, cols, pt, via_pcs, seed)| PerCase { cfg, log_n, shift, cols, pt, via_pcs, seed })
}

fn per_check<C: G>(c: &PerCase) -> Report {
    let mut seed = c.seed;
    let log_n = c.log_n as usize;
    let n = 1usize << log_n;
    let shift: C::F = shift_val(c.shift, &mut seed);
    let d = Coset::<C::F>::new(shift, log_n).expect("within two-adicity");
    let point: C::EF = match c.pt {
        PPt::Rand => rnd_ef::<C::F, C::EF>(&mut seed),
        PPt::Base => C::EF::from(rnd_f::<C::F>(&mut seed)),
        PPt::Zero => C::EF::ZERO,
        PPt::One => C::EF::ONE,
        PPt::InDomain(k) => C::EF::from(d.shift() * d.subgroup_generator().exp_u64(pick(k, n) as u64)),
    };
    let mut any_invalid = false;
    let mut classes: Vec<String> = vec![];
    let mut boundary = log_n == 0 || matches!(c.pt, PPt::InDomain(_) | PPt::Zero);
    let cols: Vec<Vec<C::F>> = c
        .cols
        .iter()
        .map(|&(len, fill)| {
            let (l, valid) = match len {
                ColLen::Pow(i) => (1usize << pick(i, log_n.min(6) + 1), true),
                ColLen::Full => {
                    if log_n <= 8 {
                        (n, true)
                    } else {
                        (1 << 8, true)
                    }
                }
                ColLen::Const => (1, true),
                ColLen::NonPow2(k) => {
                    let l = [3usize, 5, 6, 7, 12][k as usize % 5];
                    (l, false)
                }
                ColLen::TooLong => (2 * n, false),
                ColLen::Empty => (0, false),
            };
            if !valid {
                any_invalid = true;
                boundary = true;
                classes.push(format!(
                    "column:invalid:{}",
                    match len {
                        ColLen::NonPow2(_) => "not-power-of-two",
                        ColLen::TooLong => "longer-than-domain",
                        _ => "empty",
                    }
                ));
            } else {
                if l == 1 {
                    classes.push("period=1".into());
                    boundary = true;
                }
                if l == n {
                    classes.push("period=n".into());
                    boundary = true;
                }
                if l != 1 && l != n {
                    classes.push("period:1<p<n".into());
                }
            }
            (0..l)
                .map(|i| match fill % 4 {
                    0 => rnd_f::<C::F>(&mut seed),
                    1 => C::F::ZERO,
                    2 => C::F::from_u64(7),
                    _ => C::F::from_bool(i % 2 == 1),
                })
                .collect()
        })
        .collect();

    let mut rep = Report::pass()
        .class(format!("cfg:{}", C::NAME))
        .class(format!("domain:{}", size_class(log_n)))
        .class(format!(
            "point:{}",
            match c.pt {
                PPt::Rand => "rand-ext",
                PPt::Base => "rand-base",
                PPt::Zero => "zero",
                PPt::One => "one",
                PPt::InDomain(_) => "in-domain",
            }
        ))
        .class(if c.via_pcs { "entry:RecursivePcs" } else { "entry:hook" })
        .classes(classes.iter().cloned())
        .nontrivial(boundary)
        .key(hash_of(c));
    let fail = |rep: Report, sig: String, msg: String| -> Report {
        let mut r = rep;
        r.verdict = crate::fw::Verdict::Fail { sig, msg };
        r
    };
    let ctxs = format!(
        "cfg={} log_n={log_n} shift={} periods={:?} point={:?} via_pcs={}",
        C::NAME,
        shift.as_canonical_u64(),
        cols.iter().map(|c| c.len()).collect::<Vec<_>>(),
        coeffs::<C::F, C::EF>(&point),
        c.via_pcs
    );

    // references per (valid) column
    let mut wants: Vec<C::EF> = vec![];
    if !any_invalid {
        for col in &cols {
            let p = col.len();
            let log_p = p.trailing_zeros() as usize;
            let folds = log_n - log_p;
            // naive Lagrange over sub_shift * <h_p>
            let mut sub_shift = shift;
            let mut y = point;
            for _ in 0..folds {
                sub_shift = sub_shift * sub_shift;
                y = y * y;
            }
            let hp = C::F::two_adic_generator(log_p);
            let xs: Vec<C::F> = (0..p).map(|i| sub_shift * hp.exp_u64(i as u64)).collect();
            let mut acc = C::EF::ZERO;
            for i in 0..p {
                let mut num = C::EF::ONE;
                let mut den = C::F::ONE;
                for j in 0..p {
                    if j != i {
                        num *= y - C::EF::from(xs[j]);
                        den *= xs[i] - xs[j];
                    }
                }
                acc += num * C::EF::from(col[i] * den.inverse());
            }
            let on_subcoset = xs.iter().any(|x| C::EF::from(*x) == y);
            match catch(|| d.evaluate_periodic_column_at(col, point)) {
                Ok(nv) if nv == acc => {}
                Ok(nv) => {
                    return fail(
                        rep,
                        "C20/selfcheck:periodic-reference".into(),
                        format!("native {:?} vs Lagrange {:?}; {ctxs}", coeffs::<C::F, C::EF>(&nv), coeffs::<C::F, C::EF>(&acc)),
                    );
                }
                // native barycentric interpolation divides by (y - x_i) and by y itself: it panics for
                // a point on the period sub-coset and for y = 0, where the interpolant is perfectly
                // defined; the gadget is then compared with the Lagrange reference only
                Err(_) if on_subcoset => rep = rep.class("native:panics-on-subcoset-point"),
                Err(_) if y.is_zero() => rep = rep.class("native:panics-at-zero"),
                Err(m) => {
                    return fail(rep, "C20/selfcheck:periodic-native-panic".into(), format!("{m}; {ctxs}"));
                }
            }
            if on_subcoset {
                rep = rep.class("point-on-period-subcoset");
            }
            wants.push(acc);
        }
    }
    // native acceptance of the column lengths (p3_uni_stark::verify runs this before evaluating)
    let native_accepts = p3_uni_stark::check_periodic_column_lengths(&cols, n).is_ok();
    if native_accepts == any_invalid {
        return fail(
            rep,
            "C20/selfcheck:periodic-length-classification".into(),
            format!("check_periodic_column_lengths says {native_accepts} but generator says invalid={any_invalid}; {ctxs}"),
        );
    }
    rep = rep.class(if native_accepts { "native:accepts-lengths" } else { "native:rejects-lengths" });

    let run = guarded(|| {
        let mut b = CircuitBuilder::<C::EF>::new();
        let p = b.public_input();
        let outs = if c.via_pcs {
            C::periodic_via_pcs(&mut b, &d, &cols, p)
        } else {
            ver_hooks::evaluate_periodic_columns_circuit::<C::F, C::EF>(&mut b, &d, &cols, p)
        };
        match outs {
            Ok(o) => finish_and_run(b, &[point], &o),
            Err(e) => Run::GadgetErr(format!("{e:?}")),
        }
    });
    match (&run, any_invalid) {
        (Run::GadgetErr(_), true) => rep.class("invalid-column:rejected-at-build"),
        (other, true) => fail(
            rep,
            format!("C20/periodic:invalid-column-not-rejected:{}", other.kind()),
            format!("a malformed periodic column was not rejected at build time: {}; {ctxs}", other.detail()),
        ),
        (Run::Vals(v), false) => {
            if v.len() != wants.len() {
                return fail(rep, "C20/periodic:output-count".into(), format!("{} outputs for {} columns; {ctxs}", v.len(), wants.len()));
            }
            for i in 0..v.len() {
                if v[i] != wants[i] {
                    let p = cols[i].len();
                    let pc = if p == 1 { "period=1" } else if p == n { "period=n" } else { "1<period<n" };
                    return fail(
                        rep,
                        format!("C20/periodic:mismatch:{pc}:{}", size_class(log_n)),
                        format!(
                            "column {i} (period {p}): circuit {:?} != native {:?}; {ctxs}",
                            coeffs::<C::F, C::EF>(&v[i]),
                            coeffs::<C::F, C::EF>(&wants[i])
                        ),
                    );
                }
            }
            rep.class("periodic:equal")
        }
        (other, false) => fail(
            rep,
            format!("C20/periodic:{}:{}", other.kind(), size_class(log_n)),
            format!("valid columns but circuit {}; {ctxs}", other.detail()),
        ),
    }
}

pub fn per_oracle(c: &PerCase) -> Report {
    with_cfg!(c.cfg, C => per_check::<C>(c))
}

// =====================================================================================
// Sub-check 4: polynomial evaluation (Horner)
// =====================================================================================

#[derive(Clone, Debug, Serialize, Deserialize, Hash)]
pub struct PolyCase {
    pub cfg: u8,
    pub len: u8,
    /// 0 random ext, 1 random base, 2 all zero, 3 leading coefficient zero, 4 only the leading coefficient non-zero
    pub coeff_kind: u8,
    /// 0 random ext, 1 random base, 2 zero, 3 one, 4 minus one, 5 two-adic root of unity
    pub pt_kind: u8,
    pub seed: u64,
}

const POLY_RULE: &str = "polynomial length 0..33 (0 = documented assert, 1 = early return, 2, 2^k, 2^k+-1) x coefficients \
{ext, base, zero, leading zero, only leading} x point {ext, base, 0, 1, -1, root of unity} x 7 configurations; vs Horner over \
p3-field; non-trivial = length <= 2 or point 0/1/-1 or zero/leading-zero coefficients; distinct on the case";

fn poly_strategy() -> impl Strategy<Value = PolyCase> {
    (
        0u8..N_CFG,
        prop_oneof![
            1 => Just(0u8), 4 => Just(1u8), 3 => Just(2u8), 2 => Just(3u8),
            3 => prop_oneof![Just(4u8), Just(8), Just(16), Just(32)],
            3 => prop_oneof![Just(5u8), Just(7), Just(9), Just(15), Just(17), Just(31), Just(33)],
            4 => 0u8..=33,
        ],
        0u8..5,
        0u8..6,
        any::<u64>(),
    )
        .prop_map(|(cfg, len, coeff_kind, pt_kind, seed)| PolyCase { cfg, len, coeff_kind, pt_kind, seed })
}

fn poly_check<C: G>(c: &PolyCase) -> Report {
    let mut seed = c.seed;
    let len = c.len as usize;
    let mut cs: Vec<C::EF> = (0..len)
        .map(|_| match c.coeff_kind % 5 {
            0 | 3 | 4 => rnd_ef::<C::F, C::EF>(&mut seed),
            1 => C::EF::from(rnd_f::<C::F>(&mut seed)),
            _ => C::EF::ZERO,
        })
        .collect();
    if len > 0 {
        match c.coeff_kind % 5 {
            3 => cs[len - 1] = C::EF::ZERO,
            4 => {
                for x in cs.iter_mut().take(len - 1) {
                    *x = C::EF::ZERO;
                }
            }
            _ => {}
        }
    }
    let x: C::EF = match c.pt_kind % 6 {
        0 => rnd_ef::<C::F, C::EF>(&mut seed),
        1 => C::EF::from(rnd_f::<C::F>(&mut seed)),
        2 => C::EF::ZERO,
        3 => C::EF::ONE,
        4 => -C::EF::ONE,
        _ => C::EF::from(C::F::two_adic_generator(5)),
    };
    // Horner over p3-field
    let mut want = C::EF::ZERO;
    for co in cs.iter().rev() {
        want = want * x + *co;
    }
    // second form: sum c_i x^i
    let mut alt = C::EF::ZERO;
    let mut xp = C::EF::ONE;
    for co in &cs {
        alt += *co * xp;
        xp *= x;
    }
    let len_class = match len {
        0 => "len=0",
        1 => "len=1",
        2 => "len=2",
        l if l.is_power_of_two() => "len=2^k",
        l if (l + 1).is_power_of_two() || (l - 1).is_power_of_two() => "len=2^k+-1",
        _ => "len=other",
    };
    let mut rep = Report::pass()
        .class(format!("cfg:{}", C::NAME))
        .class(len_class)
        .class(format!("coeffs:{}", ["ext", "base", "zero", "leading-zero", "only-leading"][(c.coeff_kind % 5) as usize]))
        .class(format!("point:{}", ["ext", "base", "zero", "one", "minus-one", "root-of-unity"][(c.pt_kind % 6) as usize]))
        .nontrivial(len <= 2 || (2..=4).contains(&(c.pt_kind % 6)) || c.coeff_kind % 5 >= 2)
        .key(hash_of(c));
    let fail = |rep: Report, sig: String, msg: String| -> Report {
        let mut r = rep;
        r.verdict = crate::fw::Verdict::Fail { sig, msg };
        r
    };
    if want != alt {
        return fail(rep, "C20/selfcheck:horner-reference".into(), "Horner != power sum".into());
    }
    let ctxs = format!("cfg={} len={len} coeffs={:?} x={:?}", C::NAME, cs.iter().map(coeffs::<C::F, C::EF>).collect::<Vec<_>>(), coeffs::<C::F, C::EF>(&x));
    let run = guarded(|| {
        let mut b = CircuitBuilder::<C::EF>::new();
        let p = b.public_input();
        let mut publics = vec![x];
        let ts: Vec<ExprId> = cs
            .iter()
            .map(|v| {
                publics.push(*v);
                b.public_input()
            })
            .collect();
        let out = fri_hooks::evaluate_polynomial::<C::EF>(&mut b, &ts, p);
        finish_and_run(b, &publics, &[out])
    });
    match &run {
        Run::Vals(v) if v[0] == want => rep.class("poly:equal"),
        Run::Vals(v) => fail(
            rep,
            format!("C20/poly-eval:mismatch:{len_class}"),
            format!("circuit {:?} != Horner {:?}; {ctxs}", coeffs::<C::F, C::EF>(&v[0]), coeffs::<C::F, C::EF>(&want)),
        ),
        Run::Panic(m) if len == 0 && m.contains("at least a constant polynomial") => {
            // documented precondition (assert!) of the gadget; the native verifier's Horner of an
            // empty final polynomial is 0, but an empty final polynomial is rejected earlier
            rep = rep.class("len=0:documented-assert");
            rep
        }
        other => fail(
            rep,
            format!("C20/poly-eval:{}:{len_class}", other.kind()),
            format!("circuit {}; {ctxs}", other.detail()),
        ),
    }
}

pub fn poly_oracle(c: &PolyCase) -> Report {
    with_cfg!(c.cfg, C => poly_check::<C>(c))
}

// =====================================================================================
// Sub-check 5: exponentiation by constants
// =====================================================================================

#[derive(Clone, Copy, Debug, Serialize, Deserialize, Hash, PartialEq, Eq)]
pub enum ExpOp {
    /// circuit_exp_by_constant(base, n) with n = 2^k
    ConstPow2(u8),
    /// n = 2^k - 1 (k in 1..=64)
    ConstPow2Minus1(u8),
    /// n = 2^k + 1 (k in 1..=62)
    ConstPow2Plus1(u8),
    /// n small (1..=40)
    ConstSmall(u8),
    /// n = random non-zero usize
    ConstRand(u64),
    /// CircuitBuilder::exp_power_of_2(base, k), k in 0..=70
    Square(u8),
    /// n = 0: outside `debug_assert!(n > 0)`; executed only when debug assertions are compiled in
    /// (profile `dbg`) or with VERIF_C20_FORCE_N0=1 (release: the loop bound `num_bits - 1`
    /// wraps to u32::MAX, the call does not terminate in practice)
    ConstZero,
}

#[derive(Clone, Debug, Serialize, Deserialize, Hash)]
pub struct ExpCase {
    pub cfg: u8,
    pub op: ExpOp,
    /// 0 random ext, 1 random base, 2 zero, 3 one, 4 minus one, 5 two-adic generator of order 2^7
    pub base_kind: u8,
    pub seed: u64,
}

const EXP_RULE: &str = "circuit_exp_by_constant with n in {1, 2, 2^k, 2^k-1 (up to usize::MAX), 2^k+1, 1..40, random u64} and \
CircuitBuilder::exp_power_of_2 with power_log 0..70, base {ext, base, 0, 1, -1, root of unity} x 7 configurations; vs \
p3-field exp_u64; n = 0 is excluded in-process (debug_assert precondition; see NOTES); non-trivial = n in {1, 2, 2^k, 2^k+-1} \
or power_log in {0, 1, >= 64} or base 0/1/-1; distinct on the case";

fn exp_strategy() -> impl Strategy<Value = ExpCase> {
    (
        0u8..N_CFG,
        prop_oneof![
            1 => Just(ExpOp::ConstZero),
            1 => Just(ExpOp::ConstSmall(1)),
            1 => Just(ExpOp::ConstSmall(2)),
            1 => Just(ExpOp::ConstPow2Minus1(64)),
            3 => (0u8..=63).prop_map(ExpOp::ConstPow2),
            3 => (1u8..=64).prop_map(ExpOp::ConstPow2Minus1),
            3 => (1u8..=62).prop_map(ExpOp::ConstPow2Plus1),
            3 => (1u8..=40).prop_map(ExpOp::ConstSmall),
            3 => any::<u64>().prop_map(ExpOp::ConstRand),
            4 => prop_oneof![2 => Just(0u8), 2 => Just(1u8), 6 => 2u8..=63, 2 => 64u8..=70].prop_map(ExpOp::Square),
        ],
        0u8..6,
        any::<u64>(),
    )
        .prop_map(|(cfg, op, base_kind, seed)| ExpCase { cfg, op, base_kind, seed })
}

fn exp_check<C: G>(c: &ExpCase) -> Report {
    let mut seed = c.seed;
    let base: C::EF = match c.base_kind % 6 {
        0 => rnd_ef::<C::F, C::EF>(&mut seed),
        1 => C::EF::from(rnd_f::<C::F>(&mut seed)),
        2 => C::EF::ZERO,
        3 => C::EF::ONE,
        4 => -C::EF::ONE,
        _ => C::EF::from(C::F::two_adic_generator(7)),
    };
    let (n, square): (u64, Option<usize>) = match c.op {
        ExpOp::ConstPow2(k) => (1u64 << (k % 64), None),
        ExpOp::ConstPow2Minus1(k) => {
            let k = 1 + (k.max(1) - 1) % 64;
            (if k == 64 { u64::MAX } else { (1u64 << k) - 1 }, None)
        }
        ExpOp::ConstPow2Plus1(k) => ((1u64 << (1 + (k.max(1) - 1) % 62)) + 1, None),
        ExpOp::ConstSmall(k) => ((k as u64).clamp(1, 40), None),
        ExpOp::ConstRand(r) => (r.max(1), None),
        ExpOp::Square(k) => (0, Some((k % 71) as usize)),
        ExpOp::ConstZero => (0, None),
    };
    if matches!(c.op, ExpOp::ConstZero) {
        let rep = Report::pass().class(format!("cfg:{}", C::NAME)).nontrivial(true).key(hash_of(c));
        if !cfg!(debug_assertions) && std::env::var("VERIF_C20_FORCE_N0").is_err() {
            return rep.class("exp_by_constant:n=0:not-executed(release,precondition)");
        }
        let run = guarded(|| {
            let mut b = CircuitBuilder::<C::EF>::new();
            let x = b.public_input();
            let out = fri_hooks::circuit_exp_by_constant::<C::EF>(&mut b, x, 0);
            finish_and_run(b, &[base], &[out])
        });
        return match &run {
            Run::Panic(m) if m.contains("n > 0") => rep.class("exp_by_constant:n=0:debug-assert-panic"),
            Run::Vals(v) if v[0] == C::EF::ONE => rep.class("exp_by_constant:n=0:equal"),
            other => {
                let mut r = rep;
                r.verdict = crate::fw::Verdict::Fail {
                    sig: format!("C20/exp:n=0:{}", other.kind()),
                    msg: format!("circuit_exp_by_constant(base, 0): {}", other.detail()),
                };
                r
            }
        };
    }
    let (want, eclass, boundary): (C::EF, String, bool) = match square {
        None => {
            let cls = if n == 1 {
                "n=1"
            } else if n == 2 {
                "n=2"
            } else if n.is_power_of_two() {
                "n=2^k"
            } else if n == u64::MAX {
                "n=usize::MAX"
            } else if (n + 1).is_power_of_two() {
                "n=2^k-1"
            } else if (n - 1).is_power_of_two() {
                "n=2^k+1"
            } else {
                "n=other"
            };
            (base.exp_u64(n), format!("exp_by_constant:{cls}"), cls != "n=other")
        }
        Some(k) => {
            // x^(2^k) through exp_u64 in steps of at most 2^63
            let mut y = base;
            let mut rem = k;
            while rem > 0 {
                let step = rem.min(63);
                y = y.exp_u64(1u64 << step);
                rem -= step;
            }
            let cls = match k {
                0 => "power_log=0",
                1 => "power_log=1",
                2..=63 => "power_log=2..63",
                _ => "power_log>=64",
            };
            (y, format!("exp_power_of_2:{cls}"), k <= 1 || k >= 64)
        }
    };
    let rep = Report::pass()
        .class(format!("cfg:{}", C::NAME))
        .class(eclass.clone())
        .class(format!("base:{}", ["ext", "base", "zero", "one", "minus-one", "root-of-unity"][(c.base_kind % 6) as usize]))
        .nontrivial(boundary || (2..=4).contains(&(c.base_kind % 6)))
        .key(hash_of(c));
    let fail = |rep: Report, sig: String, msg: String| -> Report {
        let mut r = rep;
        r.verdict = crate::fw::Verdict::Fail { sig, msg };
        r
    };
    let ctxs = format!("cfg={} op={:?} n={n} base={:?}", C::NAME, c.op, coeffs::<C::F, C::EF>(&base));
    let run = guarded(|| {
        let mut b = CircuitBuilder::<C::EF>::new();
        let x = b.public_input();
        let out = match square {
            None => fri_hooks::circuit_exp_by_constant::<C::EF>(&mut b, x, n as usize),
            Some(k) => b.exp_power_of_2(x, k),
        };
        finish_and_run(b, &[base], &[out])
    });
    match &run {
        Run::Vals(v) if v[0] == want => rep.class("exp:equal"),
        Run::Vals(v) => fail(
            rep,
            format!("C20/exp:mismatch:{eclass}"),
            format!("circuit {:?} != native {:?}; {ctxs}", coeffs::<C::F, C::EF>(&v[0]), coeffs::<C::F, C::EF>(&want)),
        ),
        other => fail(rep, format!("C20/exp:{}:{eclass}", other.kind()), format!("circuit {}; {ctxs}", other.detail())),
    }
}

pub fn exp_oracle(c: &ExpCase) -> Report {
    with_cfg!(c.cfg, C => exp_check::<C>(c))
}

// =====================================================================================
// Sub-checks 6/7: index-dependent domain points
// =====================================================================================

/// How many index vectors one case runs through its (single) compiled circuit.
const ALL_INDICES_UP_TO: usize = 8;
const SAMPLED_INDICES: usize = 24;

fn indices_for(log_max: usize, seed: &mut u64) -> (Vec<u64>, bool) {
    if log_max <= ALL_INDICES_UP_TO {
        ((0..(1u64 << log_max)).collect(), true)
    } else {
        let mask = (1u64 << log_max) - 1;
        let mut v = vec![0, mask, 1, 1 << (log_max - 1), mask - 1];
        while v.len() < SAMPLED_INDICES {
            v.push(splitmix(seed) & mask);
        }
        (v, false)
    }
}

fn bits_of<EF: Field>(index: u64, n: usize) -> Vec<EF> {
    (0..n).map(|i| EF::from_bool((index >> i) & 1 == 1)).collect()
}

#[derive(Clone, Debug, Serialize, Deserialize, Hash)]
pub struct FqpCase {
    pub cfg: u8,
    pub log_max: u8,
    /// total bits consumed by the folding phases = pick(consumed, log_max + 1)
    pub consumed: u16,
    pub seed: u64,
}

const FQP_RULE: &str = "log_max_height 0..20 x total_bits_consumed 0..=log_max_height x index: ALL 2^h bit-vectors for \
h <= 8, 24 sampled (incl. 0, 2^h-1, 1, 2^(h-1)) above; one circuit per shape re-run per index; powers_of_g as the caller \
builds them (constants g^(2^j) of two_adic_generator(log_max_height)); vs two_adic_generator(h)^bitrev_h(index >> consumed) \
as in p3_fri::verifier; non-trivial = height 0/1, consumed 0, consumed = height; distinct on (cfg, height, consumed)";

fn fqp_check<C: G>(c: &FqpCase) -> Report {
    let mut seed = c.seed;
    let h = c.log_max as usize;
    let consumed = pick(c.consumed, h + 1);
    let (indices, all) = indices_for(h, &mut seed);
    let cons_class = if consumed == 0 {
        "consumed=0"
    } else if consumed == h {
        "consumed=height"
    } else {
        "0<consumed<height"
    };
    let h_class = match h {
        0 => "height=0",
        1 => "height=1",
        2..=8 => "height=2..8",
        _ => "height>8",
    };
    let rep = Report::pass()
        .class(format!("cfg:{}", C::NAME))
        .class(h_class)
        .class(cons_class)
        .class(if all { "indices:all" } else { "indices:sampled" })
        .nontrivial(h <= 1 || consumed == 0 || consumed == h)
        .key(hash_of(&(c.cfg % N_CFG, h, consumed)));
    let fail = |rep: Report, sig: String, msg: String| -> Report {
        let mut r = rep;
        r.verdict = crate::fw::Verdict::Fail { sig, msg };
        r
    };
    let g = C::F::two_adic_generator(h);
    let built = catch(|| {
        let mut b = CircuitBuilder::<C::EF>::new();
        let bits: Vec<ExprId> = (0..h).map(|_| b.public_input()).collect();
        let mut p = g;
        let powers: Vec<ExprId> = (0..h)
            .map(|_| {
                let t = b.define_const(C::EF::from(p));
                p = p * p;
                t
            })
            .collect();
        let out = fri_hooks::compute_final_query_point::<C::F, C::EF>(&mut b, &bits, h, consumed, &powers);
        (b.build(), out)
    });
    let (circuit, out) = match built {
        Ok((Ok(ci), o)) => (ci, o),
        Ok((Err(e), _)) => return fail(rep, format!("C20/final-query-point:build-err:{h_class}"), format!("{e:?}")),
        Err(m) => {
            return fail(
                rep,
                format!("C20/final-query-point:panic:{}:{h_class}:{cons_class}", sig_of_panic(&m)),
                format!("cfg={} log_max={h} consumed={consumed}: {m}", C::NAME),
            );
        }
    };
    for &index in &indices {
        let want = C::EF::from(g.exp_u64(rev_bits(index >> consumed, h)));
        let run = guarded(|| run_built(&circuit, &bits_of::<C::EF>(index, h), &[out]));
        match &run {
            Run::Vals(v) if v[0] == want => {}
            Run::Vals(v) => {
                return fail(
                    rep,
                    format!("C20/final-query-point:mismatch:{h_class}:{cons_class}"),
                    format!(
                        "cfg={} log_max={h} consumed={consumed} index={index:#b}: circuit {:?} != native {:?}",
                        C::NAME,
                        coeffs::<C::F, C::EF>(&v[0]),
                        coeffs::<C::F, C::EF>(&want)
                    ),
                );
            }
            other => {
                return fail(
                    rep,
                    format!("C20/final-query-point:{}:{h_class}:{cons_class}", other.kind()),
                    format!("cfg={} log_max={h} consumed={consumed} index={index:#b}: {}", C::NAME, other.detail()),
                );
            }
        }
    }
    rep.class("final-query-point:equal")
}

pub fn fqp_oracle(c: &FqpCase) -> Report {
    with_cfg!(c.cfg, C => fqp_check::<C>(c))
}

#[derive(Clone, Debug, Serialize, Deserialize, Hash)]
pub struct EvpCase {
    pub cfg: u8,
    pub log_global: u8,
    /// bit h set = height h is one of the matrix heights (h in 0..=log_global); at least one bit
    pub heights_mask: u32,
    pub seed: u64,
}

const EVP_RULE: &str = "log_global_max_height 0..16 x every non-empty set of matrix heights (exhaustive for <= 6, random masks \
above) x index: ALL bit-vectors for global height <= 8, sampled above; vs GENERATOR * two_adic_generator(h)^bitrev_h(index >> \
(H-h)) as in p3_fri::verifier::open_input; every requested height must be present in the returned map; non-trivial = single \
height, tallest height < global, height 0 or 1 requested, adjacent heights; distinct on (cfg, H, heights)";

fn evp_check<C: G>(c: &EvpCase) -> Report {
    let mut seed = c.seed;
    let hg = c.log_global as usize;
    let mut mask = c.heights_mask & ((1u32 << (hg + 1)) - 1);
    if mask == 0 {
        mask = 1 << hg;
    }
    let heights: Vec<usize> = (0..=hg).rev().filter(|h| (mask >> h) & 1 == 1).collect();
    let (indices, all) = indices_for(hg, &mut seed);
    let h_max = heights[0];
    let has0 = heights.contains(&0);
    let mut rep = Report::pass()
        .class(format!("cfg:{}", C::NAME))
        .class(match hg {
            0 => "global-height=0",
            1 => "global-height=1",
            2..=8 => "global-height=2..8",
            _ => "global-height>8",
        })
        .class(if heights.len() == 1 { "heights:single" } else { "heights:several" })
        .class(if h_max == hg { "tallest=global" } else { "tallest<global" })
        .class(if all { "indices:all" } else { "indices:sampled" })
        .nontrivial(heights.len() == 1 || h_max < hg || has0 || heights.contains(&1) || heights.windows(2).any(|w| w[0] == w[1] + 1))
        .key(hash_of(&(c.cfg % N_CFG, hg, mask)));
    if has0 {
        rep = rep.class(if h_max == 0 { "height0:only" } else { "height0:with-taller" });
    }
    let hcls = if has0 && h_max > 0 {
        "height0-with-taller"
    } else if h_max == 0 {
        "height0-only"
    } else if heights.len() == 1 {
        "single-height"
    } else {
        "several-heights"
    };
    let fail = |rep: Report, sig: String, msg: String| -> Report {
        let mut r = rep;
        r.verdict = crate::fw::Verdict::Fail { sig, msg };
        r
    };
    let built = catch(|| {
        let mut b = CircuitBuilder::<C::EF>::new();
        let bits: Vec<ExprId> = (0..hg).map(|_| b.public_input()).collect();
        let map: BTreeMap<usize, ExprId> = fri_hooks::precompute_evaluation_points::<C::F, C::EF>(&mut b, &heights, &bits, hg);
        (b.build(), map)
    });
    let ctxs = format!("cfg={} log_global={hg} heights={heights:?}", C::NAME);
    let (circuit, map) = match built {
        Ok((Ok(ci), m)) => (ci, m),
        Ok((Err(e), _)) => return fail(rep, format!("C20/eval-points:build-err:{hcls}"), format!("{e:?}; {ctxs}")),
        Err(m) => return fail(rep, format!("C20/eval-points:panic:{}:{hcls}", sig_of_panic(&m)), format!("{m}; {ctxs}")),
    };
    // the known finding (height 0 dropped next to a taller height) must not mask the other
    // heights: remember it, compare the rest, and report it only if nothing else differs
    let mut missing0 = false;
    let mut checked: Vec<usize> = vec![];
    for &h in &heights {
        if map.contains_key(&h) {
            checked.push(h);
        } else if h == 0 && h_max > 0 {
            missing0 = true;
        } else {
            return fail(
                rep,
                format!("C20/eval-points:missing-height:{hcls}"),
                format!("requested height {h} is absent from the returned map (keys {:?}); {ctxs}", map.keys().collect::<Vec<_>>()),
            );
        }
    }
    if map.len() != checked.len() {
        return fail(rep, format!("C20/eval-points:extra-heights:{hcls}"), format!("keys {:?}; {ctxs}", map.keys().collect::<Vec<_>>()));
    }
    let heights_all = heights.clone();
    let heights = checked;
    let outs: Vec<ExprId> = heights.iter().map(|h| map[h]).collect();
    for &index in &indices {
        let run = guarded(|| run_built(&circuit, &bits_of::<C::EF>(index, hg), &outs));
        match &run {
            Run::Vals(v) => {
                for (k, &h) in heights.iter().enumerate() {
                    let want = C::EF::from(C::F::GENERATOR * C::F::two_adic_generator(h).exp_u64(rev_bits(index >> (hg - h), h)));
                    if v[k] != want {
                        let which = if h == h_max { "tallest" } else { "derived" };
                        return fail(
                            rep,
                            format!("C20/eval-points:mismatch:{which}:{hcls}"),
                            format!(
                                "height {h} index={index:#b}: circuit {:?} != native {:?}; {ctxs}",
                                coeffs::<C::F, C::EF>(&v[k]),
                                coeffs::<C::F, C::EF>(&want)
                            ),
                        );
                    }
                }
            }
            other => {
                return fail(rep, format!("C20/eval-points:{}:{hcls}", other.kind()), format!("index={index:#b}: {}; {ctxs}", other.detail()));
            }
        }
    }
    if missing0 {
        return fail(
            rep.class("eval-points:equal-on-present-heights"),
            "C20/eval-points:height-0-missing-next-to-taller-height".to_string(),
            format!(
                "requested height 0 is absent from the returned map (keys {:?}; all other heights equal native); cfg={} log_global={hg} heights={heights_all:?}",
                map.keys().collect::<Vec<_>>(),
                C::NAME
            ),
        );
    }
    rep.class("eval-points:equal")
}

pub fn evp_oracle(c: &EvpCase) -> Report {
    with_cfg!(c.cfg, C => evp_check::<C>(c))
}

// =====================================================================================
// Driver
// =====================================================================================

pub fn run(ctx: &Ctx) {
    ctx.assume("domains are two-adic multiplicative cosets (the only PolynomialSpace the repository's RecursivePcs impls accept)");
    ctx.assume("index bits fed to the domain-point gadgets are boolean (they are constrained elsewhere, C12/C13)");
    ctx.assume("circuit_exp_by_constant(n = 0) is outside its debug_assert!(n > 0) precondition and is not executed in-process");
    ctx.shrink_iters.store(512, std::sync::atomic::Ordering::Relaxed);
    // development aid: VERIF_C20_ONLY=<sub prefix> runs a single sub-check
    let only = std::env::var("VERIF_C20_ONLY").ok();
    let on = |sub: &str| only.as_deref().is_none_or(|o| sub.starts_with(o));

    if on("selectors") {
    ctx.explore("selectors", SEL_RULE, ctx.tier.pick(400_000, 8_000_000), sel_strategy, sel_oracle);
    }
    if on("quotient") {
    ctx.explore("quotient", QUO_RULE, ctx.tier.pick(300_000, 6_000_000), quo_strategy, quo_oracle);
    }
    if on("periodic") {
    ctx.explore("periodic", PER_RULE, ctx.tier.pick(150_000, 3_000_000), per_strategy, per_oracle);
    }
    if on("poly-eval") {
    ctx.explore("poly-eval", POLY_RULE, ctx.tier.pick(400_000, 8_000_000), poly_strategy, poly_oracle);
    }
    if on("exp") {
    ctx.explore("exp", EXP_RULE, ctx.tier.pick(400_000, 8_000_000), exp_strategy, exp_oracle);
    }

    // index-dependent points: exhaustive over shapes for small heights ...
    if on("final-query-point") {
    let mut fqp_small = vec![];
    for cfg in 0..N_CFG {
        for h in 0..=ALL_INDICES_UP_TO as u8 {
            for consumed in 0..=h as usize {
                // invert fw::pick: smallest u16 mapping onto `consumed`
                let code = (((consumed << 16) + h as usize) / (h as usize + 1)) as u16;
                debug_assert_eq!(pick(code, h as usize + 1), consumed);
                fqp_small.push(FqpCase { cfg, log_max: h, consumed: code, seed: 0 });
            }
        }
    }
    ctx.enumerate("final-query-point/all-small", FQP_RULE, fqp_small, true, fqp_oracle);
    ctx.explore(
        "final-query-point",
        FQP_RULE,
        ctx.tier.pick(30_000, 600_000),
        || (0u8..N_CFG, 0u8..=20, any::<u16>(), any::<u64>()).prop_map(|(cfg, log_max, consumed, seed)| FqpCase { cfg, log_max, consumed, seed }),
        fqp_oracle,
    );
    }

    if on("eval-points") {
    let mut evp_small = vec![];
    for cfg in 0..N_CFG {
        for hg in 0..=6u8 {
            for mask in 1u32..(1u32 << (hg + 1)) {
                evp_small.push(EvpCase { cfg, log_global: hg, heights_mask: mask, seed: 0 });
            }
        }
    }
    ctx.enumerate("eval-points/all-small", EVP_RULE, evp_small, true, evp_oracle);
    ctx.explore(
        "eval-points",
        EVP_RULE,
        ctx.tier.pick(30_000, 600_000),
        || {
            (0u8..N_CFG, 0u8..=16, any::<u32>(), any::<u32>(), any::<u64>()).prop_map(|(cfg, log_global, m1, m2, seed)| EvpCase {
                cfg,
                log_global,
                // sparse masks are the common case in practice (few distinct heights)
                heights_mask: if seed & 1 == 0 { m1 & m2 } else { m1 },
                seed,
            })
        },
        evp_oracle,
    );
    }

    ctx.replay_known("selectors", sel_oracle);
    ctx.replay_known("quotient", quo_oracle);
    ctx.replay_known("periodic", per_oracle);
    ctx.replay_known("poly-eval", poly_oracle);
    ctx.replay_known("exp", exp_oracle);
    ctx.replay_known("final-query-point", fqp_oracle);
    ctx.replay_known("eval-points", evp_oracle);
    ctx.replay_known("final-query-point/all-small", fqp_oracle);
    ctx.replay_known("eval-points/all-small", evp_oracle);
}
