use crate::fw::Ctx;

pub mod c02;
pub mod c10;
pub mod c20;

pub struct Check {
    pub id: &'static str,
    pub level: &'static str,
    pub run: fn(&Ctx),
}

pub fn lookup(id: &str) -> Option<Check> {
    let all = [
        Check {
            id: "C02",
            level: "exploration",
            run: c02::run,
        },
        Check {
            id: "C10",
            level: "exploration",
            run: c10::run,
        },
        Check {
            id: "C20",
            level: "exploration",
            run: c20::run,
        },
    ];
    all.into_iter().find(|c| c.id == id)
}
