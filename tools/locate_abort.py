#!/usr/bin/env python3
"""Locate the generated case that makes the `verif` binary abort (stack overflow etc.).

The run is repeated with VERIF_LOG_LAST=1, which makes every worker write the case it is
about to execute to /tmp/verif-last-<thread>.json; each logged case is then replayed in its
own process.  A case whose replay dies from a signal is written to /verif/replays and
reported as a violation ("abort").  If no case can be isolated the result is inconclusive.
"""
import glob, hashlib, json, os, subprocess, sys

def main():
    binary, args = sys.argv[1], sys.argv[2:]
    prop = args[0]
    if "--replay" in args:
        # the replayed case itself aborts
        path = args[args.index("--replay") + 1]
        print(f"VIOLATION property={prop} replay={path}")
        print("  the replayed case aborts the process (signal)")
        return 1
    for f in glob.glob("/tmp/verif-last-*.json"):
        os.remove(f)
    env = dict(os.environ, VERIF_LOG_LAST="1")
    subprocess.run([binary] + args, env=env, stdout=subprocess.DEVNULL, stderr=subprocess.DEVNULL)
    found = None
    for f in sorted(glob.glob("/tmp/verif-last-*.json")):
        try:
            logged = json.load(open(f))
        except Exception:
            continue
        rf = {"property": prop, "sub": logged["sub"], "signature": f"{prop}/abort",
              "message": "process aborted (signal) while executing this case", "seed": 0,
              "case": logged["case"]}
        tmp = f + ".replay"
        json.dump(rf, open(tmp, "w"))
        r = subprocess.run([binary, prop, "--replay", tmp], stdout=subprocess.DEVNULL, stderr=subprocess.DEVNULL)
        if r.returncode not in (0, 1, 2):
            found = rf
            break
    for f in glob.glob("/tmp/verif-last-*"):
        os.remove(f)
    if not found:
        print("INCONCLUSIVE: the run aborted but no single case reproduces the abort")
        return 2
    h = hashlib.sha256(json.dumps(found, sort_keys=True).encode()).hexdigest()[:16]
    os.makedirs("/verif/replays", exist_ok=True)
    path = f"/verif/replays/{prop}-abort-{h}.json"
    json.dump(found, open(path, "w"), indent=1)
    print(f"VIOLATION property={prop} replay={path}")
    print(f"  sub={found['sub']} sig={prop}/abort: the process aborts (stack overflow / signal) on this case")
    return 1

sys.exit(main())
