#!/usr/bin/env python3
"""Store a verified seeded change under /verif/seeded/<id>/ (patch.diff, demo/, README of the
seeding agent, meta.json with what was run and which checks caught it)."""
import json, os, re, shutil, sys

def main():
    sid = sys.argv[1]            # e.g. c05
    prop = sys.argv[2]           # e.g. C05
    src = f"/tmp/seed4/{sid}/repo/seed"
    log = open(f"/tmp/sv/log4_{sid}.txt").read()
    dst = f"/verif/seeded/{sid}-d"
    if os.path.exists(dst):
        shutil.rmtree(dst)
    os.makedirs(dst)
    shutil.copy(f"{src}/patch.diff", f"{dst}/patch.diff")
    shutil.copytree(f"{src}/demo", f"{dst}/demo")
    if os.path.exists(f"{src}/README.md"):
        shutil.copy(f"{src}/README.md", f"{dst}/README.seeding-agent.md")
    suite = re.search(r"SUITE passed (\d+) failed (\d+)", log)
    demo_with = [l for l in log.splitlines() if l.startswith("DEMO-WITH-PATCH")]
    demo_without = [l for l in log.splitlines() if l.startswith("DEMO-WITHOUT-PATCH")]
    checks = [l for l in log.splitlines() if l.startswith("CHECK ")]
    caught = {}
    for l in checks:
        m = re.match(r"CHECK (\S+) exit=(\d+)(.*)", l)
        sigs = re.findall(r"sig=(\S+)", m.group(3))
        caught[m.group(1)] = {"exit": int(m.group(2)), "signatures": sorted(set(sigs))}
    readme = open(f"{src}/README.md").read() if os.path.exists(f"{src}/README.md") else ""
    meta = {
        "breaks_property": prop,
        "origin": "independent sub-agent given only the property text and a scratch worktree (no access to /verif)",
        "needs_to_manifest": "see README.seeding-agent.md (section on what the change needs in order to manifest)",
        "confirmed_by_me": {
            "existing_suite_with_patch": {"passed": int(suite.group(1)), "failed": int(suite.group(2))} if suite else None,
            "demo_with_patch": demo_with,
            "demo_without_patch": demo_without,
            "how": "scratch worktree /tmp/sv/repo at /repo HEAD: git apply patch.diff; cargo test --workspace --no-fail-fast --offline; demo copied to its intended path and run with and without the source change; then the quick tier of my checks against the patched worktree (harness copy with path dependencies on it)",
        },
        "my_checks_on_patched_tree": caught,
        "caught": any(v["exit"] == 1 for v in caught.values()),
    }
    json.dump(meta, open(f"{dst}/meta.json", "w"), indent=1)
    print(sid, prop, "suite", suite.groups() if suite else None, "caught", meta["caught"], {k: v["exit"] for k, v in caught.items()})

main()
