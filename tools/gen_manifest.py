#!/usr/bin/env python3
"""Regenerates /verif/MANIFEST.json from the table below (single source of truth)."""
import json

CHECKS = {
 "C02": dict(cat="exploration", tech="property-based testing (proptest): random source programs vs reference evaluator (differential / translation validation)",
   text="Random builder programs (all statement kinds, 5 field configurations, aliasing by connect) are compiled and run; every node's runner value is compared with an independent field-arithmetic evaluation of the un-simplified program; satisfying inputs must run Ok, violating inputs must fail (or be unprovable). Exploration: holds on everything generated, no absence claim.",
   note="Trusted: p3-field arithmetic; the harness' reference interpreter (e1.rs). Division-by-zero cases only judged for absence of panics.", ref="DESIGN.md §3 C02", engine="E1"),
}

NOT_YET = {}

def main():
    props = [json.loads(l) for l in open("/verif/properties.jsonl")]
    checks = []
    for p in props:
        i = p["id"]
        if i not in CHECKS:
            continue
        c = CHECKS[i]
        checks.append({
            "property_id": i,
            "quick_cmd": f"./check {i} --tier quick",
            "thorough_cmd": f"./check {i} --tier thorough",
            "evidence_file": f"/verif/evidence/{i}.json",
            "replay_cmd_template": f"./check {i} --replay {{path}}",
            "engine": c["engine"],
            "level_claimed": {"category": c["cat"], "text": c["text"], "design_ref": c["ref"]},
            "level_note": c["note"],
            "technique": c["tech"],
        })
    na = [{"property_id": p["id"], "reason": NOT_YET.get(p["id"], "check not built yet in this session (planned, see DESIGN.md §3); not claimed until it runs")}
          for p in props if p["id"] not in CHECKS]
    m = {
        "version": 1,
        "setup_cmd": "cd /verif/harness && cp -f /repo/Cargo.lock Cargo.lock && CARGO_NET_OFFLINE=true cargo build --release --features hooks",
        "hooks": {
            "guard": "cargo feature `verif-hooks` (off by default) on the repo crates",
            "enable": "the harness crate's `hooks` feature forwards to `verif-hooks`; ./check always builds with --features hooks",
            "baseline_off_cmd": "cd /repo && cargo test --workspace --no-fail-fast --offline",
            "source_commits": [],
            "add_only": True,
        },
        "engines": [
            {"name": "E1", "path": "/verif/harness/src/e1.rs", "serves_properties": ["C02", "C03", "C09", "C10", "C18", "C19"], "kind_free_text": "proptest program generator + reference semantics"},
        ],
        "checks": checks,
        "not_applicable": na,
        "notes": "All checks are property-based tests / fuzzing (proptest strategies, seeded by VERIF_SEED, sharded over 16 threads, shrinking to a replay file). See DESIGN.md.",
    }
    json.dump(m, open("/verif/MANIFEST.json", "w"), indent=1)
    print("checks:", [c["property_id"] for c in checks], "not_applicable:", len(na))

main()
