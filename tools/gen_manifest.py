#!/usr/bin/env python3
"""Regenerates /verif/MANIFEST.json from the table below (single source of truth)."""
import json

CHECKS = {
 "C02": dict(cat="exploration", tech="property-based testing (proptest): random source programs vs reference evaluator (differential / translation validation)",
   text="Random builder programs (all statement kinds, 5 field configurations, aliasing by connect) are compiled and run; every node's runner value is compared with an independent field-arithmetic evaluation of the un-simplified program; satisfying inputs must run Ok, violating inputs must fail (or be unprovable). Exploration: holds on everything generated, no absence claim.",
   note="Trusted: p3-field arithmetic; the harness' reference interpreter (e1.rs). Division-by-zero cases only judged for absence of panics.", ref="DESIGN.md §3 C02", engine="E1"),
}

CHECKS.update({
 "C03": dict(cat="exploration", tech="property-based testing (proptest): search for assignments satisfying the emitted ops but violating the source program (independent ops evaluator vs source evaluator)",
   text="For random programs, assignments derived from the honest one by pinning 1-3 slots and re-deriving the rest over Circuit::ops are judged by an independent evaluator of the op relations; whenever all ops are satisfied, every source relation (definitions, connects, asserts, bit decompositions) must hold. ~130k non-vacuous antecedents per quick run. Exploration only.",
   note="Trusted: the harness' op semantics (opsem.rs, written from the Op documentation) and source semantics (e1.rs). Fused products nobody else refers to are treated as don't-care slots. Ext (de)composition statements are excluded here (value precondition; see C12).", ref="DESIGN.md §3 C03", engine="E1"),
 "C09": dict(cat="exploration", tech="property-based testing (proptest): invariant over compiled circuits recomputed from committed preprocessed traces",
   text="For random programs x packings x 7 field configurations the WitnessChecks interactions of all tables are decoded from the committed preprocessed traces and checked: per-slot multiplicities sum to zero, one creator per read slot, no relation-relevant ALU operand with multiplicity 0 on a slot other rows refer to. Known shapes (two Const/Public creators, Horner positional contract, duplicate NPO outputs) are excluded by construction and replayed as KNOWN-FINDING.",
   note="Trusted: the documented table layouts as decoded in pv.rs; bus semantics = per-slot signed multiplicity sums (values are consistent on honest traces, which C10 checks dynamically).", ref="DESIGN.md §3 C09", engine="E1"),
 "C10": dict(cat="exploration", tech="property-based testing (proptest): random satisfying programs x prover configurations, prove + verify with the real prover",
   text="Random satisfying programs (7 field configurations, lanes 1-4, Horner packing 2-4, min heights, recompose tables) are run, proven with BatchStarkProver and verified; run Ok must imply prove Ok and verify Ok. 6000 proofs per quick run.",
   note="Trusted: the repo's own StarkConfig presets; p3-batch-stark verifier. Documented UnclaimedPrivateInput cases are discarded (counted).", ref="DESIGN.md §3 C10", engine="E1+E2"),
 "C18": dict(cat="exploration", tech="property-based testing (proptest) over runtime nondeterminism: repeated compilation in-process and in child processes, canonical digest comparison",
   text="Each generated program is compiled 6 times in one process (fresh hash seeds per map) and in 3 child processes with different rayon thread counts; a canonical digest of ops, numbering, table degrees/order, preprocessed columns, preprocessed commitment and traces must be identical.",
   note="Hash seeds and thread schedules are sampled, not controlled; proof bytes are not compared (parallel PoW grinding).", ref="DESIGN.md §3 C18", engine="E1+E5"),
})

NOT_YET = {}

def main():
    props = [json.loads(l) for l in open("/verif/properties.jsonl")]
    checks = []
    for p in props:
        i = p["id"]
        if i not in CHECKS:
            continue
        c = CHECKS[i]
        checks.append({
            "property_id": i,
            "quick_cmd": f"./check {i} --tier quick",
            "thorough_cmd": f"./check {i} --tier thorough",
            "evidence_file": f"/verif/evidence/{i}.json",
            "replay_cmd_template": f"./check {i} --replay {{path}}",
            "engine": c["engine"],
            "level_claimed": {"category": c["cat"], "text": c["text"], "design_ref": c["ref"]},
            "level_note": c["note"],
            "technique": c["tech"],
        })
    na = [{"property_id": p["id"], "reason": NOT_YET.get(p["id"], "check not built yet in this session (planned, see DESIGN.md §3); not claimed until it runs")}
          for p in props if p["id"] not in CHECKS]
    m = {
        "version": 1,
        "setup_cmd": "cd /verif/harness && cp -f /repo/Cargo.lock Cargo.lock && CARGO_NET_OFFLINE=true cargo build --release --features hooks",
        "hooks": {
            "guard": "cargo feature `verif-hooks` (off by default) on the repo crates",
            "enable": "the harness crate's `hooks` feature forwards to `verif-hooks`; ./check always builds with --features hooks",
            "baseline_off_cmd": "cd /repo && cargo test --workspace --no-fail-fast --offline",
            "source_commits": [],
            "add_only": True,
        },
        "engines": [
            {"name": "E1", "path": "/verif/harness/src/e1.rs", "serves_properties": ["C02", "C03", "C09", "C10", "C18", "C19"], "kind_free_text": "proptest program generator + reference semantics"},
        ],
        "checks": checks,
        "not_applicable": na,
        "notes": "All checks are property-based tests / fuzzing (proptest strategies, seeded by VERIF_SEED, sharded over 16 threads, shrinking to a replay file). See DESIGN.md.",
    }
    json.dump(m, open("/verif/MANIFEST.json", "w"), indent=1)
    print("checks:", [c["property_id"] for c in checks], "not_applicable:", len(na))

main()
