#!/usr/bin/env python3
"""Regenerates /verif/MANIFEST.json from the table below (single source of truth)."""
import json

CHECKS = {
 "C02": dict(cat="exploration", tech="property-based testing (proptest): random source programs vs reference evaluator (differential / translation validation)",
   text="Random builder programs (all statement kinds, 5 field configurations, aliasing by connect) are compiled and run; every node's runner value is compared with an independent field-arithmetic evaluation of the un-simplified program; satisfying inputs must run Ok, violating inputs must fail (or be unprovable). Exploration: holds on everything generated, no absence claim. Direct permutation programs (1-12 Poseidon1/2 sponge and Merkle rows, 6 configurations) are run and every exposed output and committed row input is compared with a model over the native permutation.",
   note="Trusted: p3-field arithmetic; the harness' reference interpreter (e1.rs). Division-by-zero cases only judged for absence of panics.", ref="DESIGN.md §3 C02", engine="E1"),
}

CHECKS.update({
 "C03": dict(cat="exploration", tech="property-based testing (proptest): search for assignments satisfying the emitted ops but violating the source program (independent ops evaluator vs source evaluator)",
   text="For random programs, assignments derived from the honest one by pinning 1-3 slots and re-deriving the rest over Circuit::ops are judged by an independent evaluator of the op relations; whenever all ops are satisfied, every source relation (definitions, connects, asserts, bit decompositions) must hold. ~130k non-vacuous antecedents per quick run. Exploration only.",
   note="Trusted: the harness' op semantics (opsem.rs, written from the Op documentation) and source semantics (e1.rs). Fused products nobody else refers to are treated as don't-care slots. Ext (de)composition statements are excluded here (value precondition; see C12).", ref="DESIGN.md §3 C03", engine="E1"),
 "C09": dict(cat="exploration", tech="property-based testing (proptest): invariant over compiled circuits recomputed from committed preprocessed traces",
   text="For random programs x packings x 7 field configurations the WitnessChecks interactions of all tables are decoded from the committed preprocessed traces and checked: per-slot multiplicities sum to zero, one creator per read slot, no relation-relevant ALU operand with multiplicity 0 on a slot other rows refer to. Known shapes (two Const/Public creators, Horner positional contract, duplicate NPO outputs) are excluded by construction and replayed as KNOWN-FINDING. Additionally, library-built circuits with Merkle-mode permutation tables (half of them steered to an exactly full table) are proven and verified: a lookup rejection of the honest traces means the bus does not balance. Direct permutation programs (exposed index sums, exactly full tables) are proven as well.",
   note="Trusted: the documented table layouts as decoded in pv.rs; bus semantics = per-slot signed multiplicity sums (values are consistent on honest traces, which C10 checks dynamically).", ref="DESIGN.md §3 C09", engine="E1"),
 "C10": dict(cat="exploration", tech="property-based testing (proptest): random satisfying programs x prover configurations, prove + verify with the real prover",
   text="Random satisfying programs (7 field configurations, lanes 1-4, Horner packing 2-4, min heights, recompose tables) are run, proven with BatchStarkProver and verified; run Ok must imply prove Ok and verify Ok. 6000 proofs per quick run. A second sub-check proves honest MMCS opening circuits (Merkle-mode permutation rows), half of them with the permutation table steered to be exactly full (no padding row). Direct permutation programs are proven as well.",
   note="Trusted: the repo's own StarkConfig presets; p3-batch-stark verifier. Documented UnclaimedPrivateInput cases are discarded (counted).", ref="DESIGN.md §3 C10", engine="E1+E2"),
 "C18": dict(cat="exploration", tech="property-based testing (proptest) over runtime nondeterminism: repeated compilation in-process and in child processes, canonical digest comparison",
   text="Each generated program is compiled 6 times in one process (fresh hash seeds per map) and in 3 child processes with different rayon thread counts; a canonical digest of ops, numbering, table degrees/order, preprocessed columns, preprocessed commitment and traces must be identical. A third sub-check derives AIRs, degrees and preprocessed traces of circuits with two Poseidon2 tables (width 16 and 32, registered through poseidon2_air_builders_for_configs) 8 times and requires identical table order and traces.",
   note="Hash seeds and thread schedules are sampled, not controlled; proof bytes are not compared (parallel PoW grinding).", ref="DESIGN.md §3 C18", engine="E1+E5"),
})

CHECKS.update({
 "C04": dict(cat="fault_enumeration", tech="property-based fault injection (proptest): forged execution traces proven with the real prover, native verifier verdict vs independent validity oracle",
   text="1-2 generated fault operators (table cell, slot everywhere, slot+propagation, constant, recompose coefficient, input change as control) are applied to honest execution traces of random programs in 7 field configurations; the forged traces are proven in the release profile (no prover self-check) and verified natively. Accepted implies valid (one value per slot, exact constants, every ALU relation, recompose rows). ~5000 forged proofs per quick run; rejected forgeries are the negative control. Two further sub-checks: direct permutation programs with one fault (table cell, public value, chain-start accumulator, dishonest re-execution); MMCS opening circuits (arity 2 and arity 4) with one opened value changed while the Merkle-mode rows keep the honest path (forged opening at the proof level: accepted for arity-2 tables, a listed finding; rejected for arity-4 tables).",
   note="Trusted: forge::trace_validity (written from the Op documentation); STARK soundness error negligible (100 FRI queries). Cells of packed Horner rows that never reach the committed matrix are normalised. Known classes (constant values in the main trace, standard recompose coefficients unbound) are excluded by construction and replayed.", ref="DESIGN.md §3 C04", engine="E1+E2"),
 "C05": dict(cat="exploration", tech="model-based property testing (proptest): random challenger op histories, native DuplexChallenger as the model",
   text="Random histories (observe base/ext/slices, sample base/ext/bits, PoW valid/invalid, clear; 0-60 ops, thorough 300) over 14 challenger configurations x recompose table on/off are run against the native challenger and the in-circuit challenger; every sampled target must equal the native sample and run() must succeed iff every PoW check is natively valid. All sequences of length <= 3 over a 10-symbol alphabet are enumerated.",
   note="Trusted: p3-challenger DuplexChallenger and the native permutations.", ref="DESIGN.md §3 C05", engine="E4"),
 "C07": dict(cat="exploration", tech="differential property testing (proptest) with JSON-path fault injection on FRI proofs: native Pcs::verify vs in-circuit verifier",
   text="Generated FRI parameter sets and commitment shapes (mixed heights/arity schedules, shared and distinct opening points) are opened honestly with the native PCS; each of 1-10 single-leaf alterations (and bad PoW witnesses) is judged by native Pcs::verify and by the circuit (full transcript+MMCS variant, and verify_fri_circuit with fixed challenges); verdicts must agree in both directions. MMCS cap heights 0-2.",
   note="Configuration: BabyBear quartic, Poseidon2-w16, TwoAdicFriPcs (the hiding PCS is exercised by C01's zk configurations). Trusted: p3-fri native verifier.", ref="DESIGN.md §3 C07", engine="E3+E4"),
 "C08": dict(cat="exploration", tech="differential property testing (proptest) with single-fault injection on Merkle openings: native MerkleTreeMmcs::verify_batch vs in-circuit gadgets",
   text="Batches of 1-6 matrices (heights 1-64 incl. non powers of two, widths 1-20, cap heights, arity 2/4, hiding, base/extension leaves, 6 configurations) are committed and opened natively; at most one fault (opened value, sibling word, index bit, cap word, salt) is applied and the native verdict compared with the circuit's run verdict, both directions. Small geometries are enumerated completely (every index).",
   note="Trusted: p3-merkle-tree. Declared-dimension lies are outside the quantifier and only explored on request (observations/c08_dim_lies.json).", ref="DESIGN.md §3 C08", engine="E4"),
 "C12": dict(cat="fault_enumeration", tech="property-based fault injection (proptest): alternative hint outputs satisfying the recomposition identity, proven and verified",
   text="For decompose_to_bits (full/shortened widths) and decompose_ext_to_base_coeffs (ALU chain, recompose table, recompose/coeff table) over 7 field configurations the hint outputs are replaced by bits of limb+p, non-boolean bits with the same weighted sum, moved coefficient mass (non-base coefficients), and identity-breaking controls; everything downstream is re-derived, proven and verified. Accepted implies canonical. Further alternatives: bits carrying extension-field junk that cancels inside each bit and across the sum; one flipped bit with another bit of the limb absorbing the difference.",
   note="The prover controls all hint outputs and the consumer's public result. Known classes (bits of x+p; non-base coefficients with the ALU chain / standard recompose table) are listed findings.", ref="DESIGN.md §3 C12", engine="E2"),
 "C20": dict(cat="exploration", tech="differential property testing (proptest): each verifier gadget vs its native Plonky3 counterpart and an explicit formula",
   text="Selectors/vanishing polynomial, quotient recomposition (1-16 chunks, ZK doubling), periodic columns, polynomial evaluation, exponentiation by constants, final query point and per-height evaluation points are built with public inputs, run, and compared with the native computation over 7 configurations, with branch-boundary parameters histogrammed and small shapes enumerated over all indices. 1.7M evaluations per quick run.",
   note="Trusted: p3-commit PolynomialSpace, p3-field. A gadget that does not terminate yields a watchdog exit (inconclusive), not a verdict.", ref="DESIGN.md §3 C20", engine="E4"),
})

CHECKS.update({
 "C11": dict(cat="exploration", tech="differential property testing (proptest + exhaustive per-cell enumeration): AIR constraint evaluation on hand-built rows vs the defining relation over the true extension field",
   text="For every ALU kind (incl. packed Horner k=2..6), Const/Public/Recompose tables and seven Poseidon1/2 table shapes, over 10 field/extension configurations and lanes 1-4, tables are built cell by cell from the documented layouts (valid, one cell perturbed, fully random); the set of rows flagged by the constraint evaluator must equal the set of rows whose relation fails. Every (operand, coefficient) cell is perturbed once per (kind, configuration, lanes, k). Two cooperating cells are also perturbed together (scalar and extension-field pairs, multipliers taken from neighbouring cells; enumerated for Horner rows).",
   note="Trusted: p3-field extension arithmetic, native permutations, DebugConstraintBuilder evaluation. Bus (cross-table) effects are C04/C09's subject.", ref="DESIGN.md §3 C11", engine="E4"),
 "C13": dict(cat="exploration", tech="differential property testing (proptest): random symbolic constraint DAGs / generated-program AIRs compiled to circuits vs reference evaluator and the native p3 constraint folder",
   text="Random symbolic DAGs (all leaf kinds, Arc sharing, base/extension, depth up to 10^4) are compiled with the repo's symbolic compiler and compared node by node with a reference evaluator; generated-program AIRs and the repo's own AIRs go through eval_folded_circuit and are compared with VerifierConstraintFolderWithLookups on the same openings, alpha, selectors and lookup challenges. 1.16M evaluations per quick run. ProgramAir includes extension assertions made only of lifted base expressions (several per program).",
   note="Trusted: p3-air symbolic types, p3-lookup native folder. One listed finding (fold order when an AIR emits extension constraints before base constraints).", ref="DESIGN.md §3 C13", engine="E4"),
 "C16": dict(cat="fault_enumeration", tech="property-based fault injection (proptest): JSON-path edits of proof metadata + postcard/JSON round trips, native verifier verdicts",
   text="BatchStarkProofs of random circuits (honest traces and natively rejected forged traces) get 1-2 edits of self-declared metadata (every scalar leaf outside the inner proof, table-list drop/duplicate/swap); an invalid-trace proof must stay rejected, changed field parameters must be rejected, verification must not panic, and postcard/JSON round trips must preserve the verdict. A second sub-check empties the lookup contexts (not serialised) of table subsets, prover-side before proving an invalid trace or in the finished in-memory proof: the proof must be rejected in memory and the verdict must survive postcard/JSON round trips. A third sub-check drives VerifierManifest::matches (the caller-side statement of the expected table set) with generated manifests and real proofs whose metadata starts equal and receives 0-3 edits (field parameters, ALU variant, drop/append/insert/duplicate/swap of table entries, op type / variant / public-value length), against a field-by-field reference comparison (20k cases per quick run).",
   note="verify_all_tables takes the preprocessed commitment from the proof; binding to a circuit is the caller's comparison (not claimed).", ref="DESIGN.md §3 C16", engine="E2+E3"),
})

CHECKS.update({
 "C19": dict(cat="exploration", tech="differential property testing (proptest) across build profiles: the same (program, input plan) cases run in the release binary and in the debug-assertion binary",
   text="Random programs rich in hint / recompose-NPO consumers and connect-shared slots x input plans (provide once, skip, too short, too long, set twice equal/conflicting) are executed by the release-profile runner and by the debug-assertion-profile runner (child process). Verdict classes must agree, success requires consistently provided inputs (or inputs the circuit itself determines) and the reference values, no panic/abort in either profile. 150k cases per quick run. One more plan supplies complete inputs with one value changed (possibly conflicting with what the circuit determines): on success every input slot must hold the supplied value. Non-primitive private data plans on permutation programs: attached to the right row, to a sponge row, twice, by unknown tag or out-of-range op id.",
   note="UB is observed through behaviour, not proven absent. Builder-stage failures (e.g. debug-only assertions in connect) are outside the runner property and discarded (counted).", ref="DESIGN.md §3 C19", engine="E1"),
})

CHECKS.update({
 "C06": dict(cat="fault_enumeration", tech="property-based fault injection (proptest) on proofs of challenger circuits: forged non-fixed witness slots and forged permutation-table input cells, re-executed by the real executors, proven and verified; native transcript as oracle",
   text="Challenger histories (C05's generator) in the 8 configurations the prover has permutation tables for (Poseidon2/Poseidon1; BabyBear/KoalaBear degree 4, KoalaBear base-field permutation in the quintic circuit, Goldilocks degree 2) are compiled and executed honestly; then (a) one witness slot the verifier does not fix is forged in place or with re-execution of everything downstream, or (b) one input cell of one permutation-table row is set to a prover-chosen value (executor fault hook) and everything downstream derived from it; verifier-fixed slots keep their values; the forged traces are proven and verified. Accepted implies every sampled challenge equals the native transcript of the observed values. ~5000 forged proofs per quick run. Capacity outputs travelling through witness slots (extension-degree challengers) and coefficients read by the standard recompose table are listed findings; the unconstrained capacity of the first table row was found here and repaired.",
   note="Internal permutation round columns are regenerated honestly by the executors. A forged slot that no committed table carries (non-primitive output nobody reads) is discarded.", ref="DESIGN.md §3 C06, §7", engine="E2+E4"),
 "C14": dict(cat="exploration", tech="differential property testing (proptest): packed proof inputs vs the serde image of an independent proof, plus single-position perturbation with native verification as oracle",
   text="For generated proof shapes (uni-STARK and batch-STARK families incl. lookups, preprocessed columns, ZK/hiding PCS and hiding MMCS; BabyBear/KoalaBear degree 4; heights, widths, quotient chunks, FRI parameters and cap heights varied) the verifier circuit is built from proof A and fed with the packed vectors of an independent proof B: lengths must equal the documented flat lengths, every allocated target must hold B's documented element (target structures walked against B's serialised form), and changing any single position (public, private, Merkle sibling data) must make the run fail iff native verification rejects the same change. Quick: 400 shapes x 400 sampled positions plus 48 shapes with every position swept (hiding-MMCS family and Merkle caps above the root over-weighted); thorough: every position of 6000 shapes.",
   note="Trusted: serde image of the proof types, native p3 verifiers. ZK batches restricted to one table (upstream prover deadlock); pure extension deltas on lifted base-field public inputs have no native counterpart and are evidence-only.", ref="DESIGN.md §3 C14, §7", engine="E4"),
 "C15": dict(cat="fault_enumeration", tech="property-based structural fault injection (proptest + exhaustive single-alteration enumeration) on serialised proofs and companion data; optional libFuzzer target (harness/fuzz) over the same oracle; the thorough tier adds a bounded coverage-guided libFuzzer campaign (cargo-fuzz target harness/fuzz/c15_structural, 40000 runs) over the same mutation scripts, oracle and allow-list",
   text="Honest bundles of nine configurations (uni/batch/circuit-prover proofs; BabyBear, KoalaBear D4/D5, Goldilocks D2; preprocessed, lookups, ZK, non-primitive tables, multi-arity FRI) are serialised to JSON; the schema (variable-length arrays, count leaves, options) is probed from the deserialiser; EVERY array x {truncate, extend, empty}, EVERY option x toggle and EVERY count leaf x 21 edits is applied once (7983 cases), plus 8000 (thorough 200000) random 1-2 alteration combinations. Oracle: the pipeline allocate/verify_*_circuit/build/pack/set inputs/run never panics, never returns Ok where the native verifier rejects, and length changes of shape-validated vectors are rejected at build with InvalidProofShape. A recorded baseline (7410 alterations the recorded tree rejects while the circuit is built) must stay rejected at build time (rejection-moved-later).",
   note="Size-like counts are clamped to avoid OOM/abort (the unclamped region is a listed finding). Listed findings are matched per (panic site, message class, leaf class). Native panic means no verdict for the weaker-circuit oracle.", ref="DESIGN.md §3 C15, §7", engine="E3"),
 "C01": dict(cat="exploration", tech="differential property testing (proptest + exhaustive leaf enumeration) with JSON-path single-leaf alterations and bad-trace proofs: native uni/batch STARK verifier vs the verifier circuit's run verdict",
   text="17 configurations (uni-STARK, direct batch-STARK, ZK/hiding PCS incl. salted hiding MMCS, circuit-prover batch proofs; BabyBear D4, KoalaBear D4/D5, Goldilocks D2, arity-4 MMCS) x generated FRI parameters, AIRs (public values, preprocessed columns, degrees 2-4, periodic columns, no-next-row) and heights: the honest proof must be accepted by both verifiers; each of 1-12 single-leaf alterations (field element, digest word, index, public value, commitment, common data) must be judged identically by the native verifier and by the circuit (built from the altered bundle, MMCS on); a third of the cases add a proof made by the release prover from a trace with one altered cell (the only rejected proofs on which the quotient connect / LogUp terminal sum is the sole failing check). Every numeric leaf of 29 small proofs is enumerated (12789 leaves). Thorough: 160 proofs with all 141228 leaves at two values each.",
   note="Trusted: p3-uni-stark / p3-batch-stark native verifiers. Deterministic PoW grinding wrapper makes replays exact. Statement metadata of BatchStarkProof is not altered (C16's subject). Two completeness findings listed (periodic columns; AIRs that never read the next row in the uni circuit).", ref="DESIGN.md §3 C01, §7", engine="E3+E4"),
 "C17": dict(cat="exploration", tech="model-based property testing (proptest) over call histories of the recursion API: generated sequences of next-layer / aggregation / parameter-change steps with cache disciplines, model = statement carried by each output and circuit digest carried by each cache; native verification of every layer output as oracle",
   text="Histories of up to 3 (thorough 5) proving steps over the unified recursion API (prove_next_layer, prove_aggregation_layer) on KoalaBear/BabyBear D4: left/right inputs are uni-STARK or batch-STARK statements or earlier outputs, valid or invalid; each step uses no cache, a fresh cache or a cache reused from any earlier call; parameter changes (table packing, constraint profile, FRI arity/queries, PoW bits) between steps. After every step: valid inputs with no/fresh/same-circuit cache must give Ok and an output that verifies natively (and agree with the uncached call); invalid inputs must give Err under every cache discipline; a cache prepared for a different circuit must give Err or a verifying output, never a non-verifying output or a panic; outputs chain into later steps. 800 generated + 60 engineered histories per quick run. Engineered histories cover fill / parameter change / miss / hit sequences on one cache slot. Two further sub-checks (cross-histories, cross-engineered) drive the cross-configuration aggregation API with five (input, output) configuration pairs: plain to plain with different FRI parameters, plain/hiding in all combinations, plain to arity-4 MMCS.",
   note="The model's circuit digest is computed from the full op list, not from the repo's four fingerprint counters. Two cache-handling findings listed (next-layer cache carries no fingerprint; aggregation fingerprint does not identify the circuit). Quick tier is 1000+ CPU-seconds.", ref="DESIGN.md §3 C17, §7", engine="E5"),
})

NOT_YET = {}

def main():
    props = [json.loads(l) for l in open("/verif/properties.jsonl")]
    checks = []
    for p in props:
        i = p["id"]
        if i not in CHECKS:
            continue
        c = CHECKS[i]
        checks.append({
            "property_id": i,
            "quick_cmd": f"./check {i} --tier quick",
            "thorough_cmd": f"./check {i} --tier thorough",
            "evidence_file": f"/verif/evidence/{i}.json",
            "replay_cmd_template": f"./check {i} --replay {{path}}",
            "engine": c["engine"],
            "level_claimed": {"category": c["cat"], "text": c["text"], "design_ref": c["ref"]},
            "level_note": c["note"],
            "technique": c["tech"],
        })
    na = [{"property_id": p["id"], "reason": NOT_YET.get(p["id"], "check not built yet in this session (planned, see DESIGN.md §3); not claimed until it runs")}
          for p in props if p["id"] not in CHECKS]
    m = {
        "version": 1,
        "setup_cmd": "cd /verif/harness && cp -f /repo/Cargo.lock Cargo.lock && CARGO_NET_OFFLINE=true cargo build --release --features hooks && CARGO_NET_OFFLINE=true cargo build --profile dbg --features hooks",
        "hooks": {
            "guard": "cargo feature `verif-hooks` (off by default) on the repo crates",
            "enable": "the harness crate's `hooks` feature forwards to `verif-hooks`; ./check always builds with --features hooks",
            "baseline_off_cmd": "cd /repo && cargo test --workspace --no-fail-fast --offline",
            "source_commits": ["8bb8c6d", "f2327e8", "f564978"],
            "add_only": True,
        },
        "engines": [
            {"name": "E1", "path": "/verif/harness/src/e1.rs", "serves_properties": ["C02", "C03", "C09", "C10", "C18", "C19"], "kind_free_text": "proptest program generator + reference semantics"},
        ],
        "checks": checks,
        "not_applicable": na,
        "notes": "All checks are property-based tests / fuzzing (proptest strategies, seeded by VERIF_SEED, sharded over 16 threads, shrinking to a replay file). See DESIGN.md.",
    }
    json.dump(m, open("/verif/MANIFEST.json", "w"), indent=1)
    print("checks:", [c["property_id"] for c in checks], "not_applicable:", len(na))

main()
