p='recursion/src/verifier/batch_stark.rs'
s=open(p).read()
old='''    if proof.ext_degree != TRACE_D {'''
assert old in s
s=s.replace(old,'''    if false && proof.ext_degree != TRACE_D {''')
open(p,'w').write(s)
