#!/bin/bash
# usage: sens.sh <name> <python-file-with-patch>
set -u
name=$1; patch=$2
cd /tmp/agents/c15/repo && git checkout -- . && python3 $patch || { echo "PATCH FAILED"; exit 3; }
git -C /tmp/agents/c15/repo diff --stat | tail -1
cd /tmp/agents/c15/harness && export CARGO_TARGET_DIR=/tmp/agents/c15/target CARGO_NET_OFFLINE=true VERIF_DIR=/tmp/agents/c15/out-sens
mkdir -p $VERIF_DIR && cp /tmp/agents/c15/out/known_findings.json $VERIF_DIR/
cargo build --release 2>&1 | grep -E "^error" -A15 | head -30
start=$(date +%s)
$CARGO_TARGET_DIR/release/verif C15 > /tmp/agents/c15/sens-$name.log 2>&1; rc=$?
end=$(date +%s)
echo "== $name exit=$rc wall=$((end-start))s"
grep -A3 "^VIOLATION" /tmp/agents/c15/sens-$name.log | cut -c1-400 | head -12
tail -1 /tmp/agents/c15/sens-$name.log
cd /tmp/agents/c15/repo && git checkout -- .
