p='recursion/src/pcs/fri/verifier.rs'
s=open(p).read()
old='''    if num_queries == 0 {'''
assert old in s
s=s.replace(old,'''    if false && num_queries == 0 {''')
open(p,'w').write(s)
