p='recursion/src/pcs/fri/verifier.rs'
s=open(p).read()
old='''        if query_proof.commit_phase_openings.len() != num_phases {'''
assert old in s
s=s.replace(old,'''        if false && query_proof.commit_phase_openings.len() != num_phases {''')
open(p,'w').write(s)
