p='recursion/src/verifier/batch_stark.rs'
s=open(p).read()
old='''        if local_prep_len != pre_w || next_prep_len != pre_w {'''
assert old in s
s=s.replace(old,'''        if false && (local_prep_len != pre_w || next_prep_len != pre_w) {''')
open(p,'w').write(s)
