import json,glob,collections,sys
DESC = [
 ("C15/panic:std@verify_circuit:capacity overflow:rows", "BatchStarkProof.rows[i] = usize::MAX / 2^63: create_alu_air / ConstAir::new / PublicAir::new size `vec![..; rows * width]` from the self-declared row count (BatchStarkProof::validate only rejects 0) -> `capacity overflow` panic inside verify_p3_batch_proof_circuit. Native verify_all_tables accepts the same metadata (rows are not used for allocation there). One-line repair: bound rows (e.g. rows <= lanes << degree_bits) in BatchStarkProof::validate."),
 ("C15/panic:p3-monty-31-0.6.3/src/monty_31.rs::two_adic_generator", "FriVerifierParams.log_blowup >= 28 (out of range): log_height + log_blowup exceeds the field's two-adicity and `F::two_adic_generator` asserts inside verify_fri_circuit. Parameter-level (caller-supplied); one-line repair: reject log_blowup + log_max_height > F::TWO_ADICITY with InvalidProofShape."),
 ("C15/panic:p3-goldilocks-0.6.3/src/goldilocks.rs::two_adic_generator", "Same as the Monty31 two_adic_generator finding, Goldilocks instance (log_blowup >= 33)."),
 ("C15/panic:std@verify_circuit:capacity overflow:table_packing", "table_packing.alu_lanes / horner_packed_steps = usize::MAX or 2^63: the rebuilt AluAir has an overflowing width and the symbolic evaluation behind RecursiveAir::opens_trace_next allocates it -> `capacity overflow`. One-line repair: upper bound on lanes / horner_packed_steps in TablePacking::validate."),
 ("C15/panic:p3-air-0.6.3/src/symbolic/expression.rs::resolve:preprocessed column index out of bounds", "CommonData.lookups[i] holding the lookup contexts of ANOTHER instance (caller-supplied, 'cannot be trusted' per the code comment): get_log_num_quotient_chunks evaluates lookup expressions that reference preprocessed columns beyond instance i's width -> panic in p3-air. Only lengths of common.lookups are validated. Repair: rebuild lookups from the AIRs as the native verifier does (not a one-liner), or bound-check column indices of every lookup expression."),
 ("C15/weaker-circuit:w_binomial:toggle", "BatchStarkProof.w_binomial Some -> None: native verify_all_tables rejects (BinomialWMismatch) while verify_p3_batch_proof_circuit never reads w_binomial (it takes W from the extension type) and verifies Ok. Benign in substance (the circuit uses the right W), but the recursive verifier accepts metadata the native one rejects. One-line repair: compare proof.w_binomial with EF::extract_w() next to the ext_degree check."),
 ("C15/panic:p3-commit-0.6.3/src/domain.rs::create_disjoint_domain", "proof.degree_bits too large (27, 28, ...): `1 << (degree_bits + log_quotient_degree)` exceeds the two-adicity, create_disjoint_domain unwraps None. The native verifier has validate_degree_bits and rejects. One-line repair: the same bound before building domains."),
 ("C15/panic:p3-fri-0.6.3/src/two_adic_pcs.rs::natural_domain_for_degree", "proof.degree_bits (uni) / degree_bits[i] (batch) out of range (>= 28 for 31-bit fields, 63, 64, usize::MAX; also degree_bits - is_zk underflow cases): natural_domain_for_degree(1 << degree_bits) unwraps None. Native rejects via validate_degree_bits. One-line repair: range check degree_bits <= log_max_lde_height before use."),
 ("C15/panic:recursion/src/pcs/fri/targets.rs::verify_circuit:range end index", "commit_pow_witnesses shorter / commit_phase_commits longer than the other: RecursivePcs::verify_circuit slices the flat challenge vector by counts taken from two different proof vectors BEFORE verify_fri_circuit's shape validation -> slice index panic. One-line repair: compare the two lengths (InvalidProofShape) before slicing."),
 ("C15/panic:recursion/src/pcs/mmcs.rs::verify_batch_circuit:commitment cap", "A Merkle cap with zero entries (trace / main / quotient / permutation / random / preprocessed commitment): verify_batch_circuit `expect`s a non-empty cap instead of returning an error. One-line repair: return InvalidProofShape."),
 ("C15/panic:recursion/src/pcs/mmcs.rs::verify_batch_circuit_from_extension_opened:commitment cap", "Same as the verify_batch_circuit empty-cap finding, for FRI commit-phase commitments."),
 ("C15/panic:recursion/src/pcs/mmcs.rs::verify_batch_circuit_from_extension_opened:range end index", "A commit-phase Merkle cap extended to 2 / 4 entries (a legal power of two) together with log_blowup lowered (0 / halved): `path_depth = max_height_log - cap_height` underflows in verify_batch_circuit_from_extension_opened and `index_bits[..path_depth]` panics. cap_height is prover-controlled and never compared with the tree height. One-line repair: checked_sub with InvalidProofShape."),
 ("C15/panic:p3-util-0.6.3/src/lib.rs::log2_strict_usize:Not a power of two", "A Merkle cap with 3 entries (any commitment, extended by one copy): cap height is taken with log2_strict_usize -> panic. Native rejects. One-line repair: check cap.len().is_power_of_two()."),
 ("C15/panic:recursion/src/pcs/fri/verifier.rs::precompute_evaluation_points", "degree_bits raised so that an input matrix is taller than the FRI index width (log_height > log_max_height from the proof's own Merkle path lengths): `index_bits[log_max_height - log_height..]` underflows -> slice panic. Native rejects. One-line repair: checked_sub with InvalidProofShape."),
 ("C15/panic:recursion/src/pcs/fri/verifier.rs::open_input:no entry found for key", "FriVerifierParams.log_blowup = 0 (out of range): the per-height reduced-opening map has no entry for the height open_input looks up (HashMap index panics). One-line repair: reject log_blowup == 0 / use .get() with an error."),
 ("C15/panic:recursion/src/public_inputs.rs::allocate", "BatchStarkVerifierInputsBuilder::allocate asserts air_public_counts.len() == proof.opened_values.instances.len() (documented under '# Panics'), but verify_p3_batch_proof_circuit calls it with counts derived from the proof METADATA (3 + non_primitives.len()) and instances taken from the inner proof: a proof whose `opened_values.instances` list is truncated / extended / emptied panics the recursive verifier before any shape validation. One-line repair: compare the two lengths and return InvalidProofShape before allocate."),
 ("C15/panic:recursion/src/verifier/batch_stark.rs::verify_batch_circuit:index out of bounds", "proof.lookup_terminals shorter than the number of instances: verify_batch_circuit indexes `lookup_terminals[i]` in the per-instance loop; the up-front length check covers instances / public values / degree_bits but not lookup_terminals. One-line repair: add `|| airs.len() != lookup_terminals.len()` to that check."),
 ("C15/weaker-circuit:proof.lookup_terminals:extend", "proof.lookup_terminals LONGER than the number of instances (copies of the last terminal appended): native verify_batch rejects (InstanceCountMismatch), the recursive circuit builds, packs and runs Ok, silently ignoring the extra entries (their targets stay unconstrained public inputs). Same missing length check as the lookup_terminals index panic; one-line repair."),
 ("C15/panic:circuit/src/symbolic/targets.rs::resolve_base_var", "Fewer public values than the AIR declares (verifier-side input `pis` truncated / a PubAir instance with an empty list): the symbolic evaluation of the AIR indexes public_values[i] -> index panic in p3-circuit. Native rejects (InvalidProofShape). One-line repair: compare public_values.len() with air.num_public_values() in verify_*_circuit."),
 ("C15/weaker-circuit:proof.opening_proof.query_proofs:truncate", "The FRI proof's query_proofs list truncated from 2 to 1 entry: native rejects (QueryProofCountMismatch, num_queries is a verifier parameter), the recursive verifier takes the number of queries from the PROOF (FriVerifierParams has no num_queries) and verifies Ok with half the queries -- a prover-chosen security level. Query proofs are not part of the transcript, so dropping them keeps all other checks satisfied. Repair needs a num_queries field in FriVerifierParams plus one comparison (small API change, not a one-liner)."),
 ("C15/late-rejection:proof.opening_proof.query_proofs:run:CircuitError", "Consequence of the missing query-count check: a proof with an extra (copied) query proof builds a 3-query circuit; it is rejected only at run time because the copied query does not open at the third sampled index (WitnessConflict), not by shape validation."),
 ("C15/late-rejection:proof.opening_proof.query_proofs[].commit_phase_openings[].sibling_values:set_private", "sibling_values emptied / truncated / extended: CommitPhaseProofStepTargets::new allocates ((1 << log_arity) - 1) * D targets from log_arity and never looks at sibling_values.len(), so verify_fri_circuit's documented check `sibling_coefficients.len() == (2^log_arity - 1) * D` compares log_arity with itself and cannot fire; the mismatch surfaces at set_private_inputs (length mismatch). One-line repair: allocate from input.sibling_values.len()."),
 ("C15/late-rejection:proof.opening_proof.query_proofs[].commit_phase_openings[].sibling_values:extend", "sibling_values extended: same root cause as the `empty` variant."),
 ("C15/panic:p3-air-0.6.3/src/symbolic/builder.rs::current_slice", "preprocessed_local of a proof for an AIR WITH preprocessed columns removed / emptied: verify_p3_uni_proof_circuit derives preprocessed_width from the PROOF's opened values and evaluates the AIR symbolically (declares_interactions / get_log_num_quotient_chunks) with width 0 before validate_proof_shape runs -> the AIR's preprocessed window access asserts. Repair: take the width from the AIR (BaseAir::preprocessed_width) or run the shape validation first (small reorder)."),
 ("C15/panic:src/checks/c15.rs::eval", "Same root cause as the current_slice finding with a shortened (non-empty) preprocessed_local: the test AIR `MulAir::eval` (copy of recursion/tests/common/mod.rs) indexes its 40 preprocessed columns, the symbolic builder was sized from the proof's 1..39 opened values."),
]
files=sorted(glob.glob('/tmp/agents/c15/out/survey/*.json'))
groups=collections.OrderedDict()
for f in files:
    d=json.load(open(f))
    sig=d['signature']
    pre=':'.join(sig.split(':')[:-1]) if sig.startswith('C15/panic:') else (':'.join(sig.split(':')[:-1]) if sig.startswith('C15/late-rejection:') else sig)
    groups.setdefault(pre,[]).append(d)
out=[]
missing=[]
for pre,ds in groups.items():
    desc=None
    for k,v in DESC:
        if pre.startswith(k): desc=v;break
    if desc is None: missing.append(pre); desc="(undescribed)"
    d=min(ds,key=lambda d:len(json.dumps(d['case'])))
    if pre.startswith('C15/panic:'):
        desc += " [leaf class: %s]" % pre.split(':')[-1]
    out.append({"property":"C15","signature":pre,"status":"known","sub":"enumerate","description":desc,"minimal_case":d['case']})
# ---- overflow-check builds only (profile dbg / cargo-fuzz default build)
DBG_DESC=[
 ("recursion/src/pcs/fri/targets.rs::new:attempt to shift left", "OVERFLOW-CHECK BUILDS ONLY (profile dbg, cargo-fuzz default): CommitPhaseProofStepTargets::new computes `1usize << log_arity` from the prover-supplied u8; log_arity >= 64 overflows (release builds mask the shift and allocate ((1 << (log_arity & 63)) - 1) * D targets instead; log_arity in 24..=63 makes that a multi-gigabyte allocation and aborts the process, see NOTES.md). One-line repair: reject log_arity > max_log_arity / allocate from sibling_values.len()."),
 ("recursion/src/pcs/fri/verifier.rs::precompute_evaluation_points:attempt to subtract", "OVERFLOW-CHECK BUILDS ONLY: `log_max_height - log_height` underflow; the release build wraps and panics on the slice index instead (listed separately)."),
 ("recursion/src/pcs/fri/targets.rs::verify_circuit:attempt to add", "OVERFLOW-CHECK BUILDS ONLY: challenge-offset arithmetic on proof-derived counts / FRI scalars (log_blowup, log_final_poly_len, pow bits near usize::MAX) overflows before any range check."),
 ("recursion/src/verifier/batch_stark.rs::verify_batch_circuit:attempt to shift left", "OVERFLOW-CHECK BUILDS ONLY: `1 << degree_bits[i]` / `1 << (base_db + log_qd + is_zk)` with degree_bits >= 64 taken from the proof (release: masked shift, then natural_domain_for_degree unwraps None or a wrong domain is used). One-line repair: range check on degree_bits (the native verifier has validate_degree_bits)."),
 ("std@verify_circuit:attempt to shift left", "OVERFLOW-CHECK BUILDS ONLY: `1 << degree_bits` in verify_p3_uni_proof_circuit with degree_bits >= 64 (release: masked shift)."),
 ("recursion/src/verifier/batch_stark.rs::create_alu_air:attempt to multiply", "OVERFLOW-CHECK BUILDS ONLY: `num_ops * preprocessed_lane_width` from the self-declared rows (release: wraps, then `capacity overflow`)."),
 ("circuit-prover/src/air/alu_air.rs::total_width", "OVERFLOW-CHECK BUILDS ONLY: AluAir::total_width multiplies / adds the self-declared lanes and horner_packed_steps (release: wraps)."),
 ("circuit-prover/src/air/public_air.rs::total_width", "OVERFLOW-CHECK BUILDS ONLY: PublicAir::total_width multiplies the self-declared public_lanes (release: wraps)."),
]
seen=set(o['signature'] for o in out)
dg=collections.OrderedDict()
for f in sorted(glob.glob('/tmp/agents/c15/out-dbg/survey/*.json')):
    d=json.load(open(f)); sig=d['signature']
    if not sig.startswith('C15/panic:'): continue
    pre=':'.join(sig.split(':')[:-1])
    if pre in seen: continue
    dg.setdefault(pre,[]).append(d)
for pre,ds in dg.items():
    desc=None
    for k,v in DBG_DESC:
        if k in pre: desc=v;break
    if desc is None: missing.append(pre); desc="(undescribed, overflow-check builds)"
    d=min(ds,key=lambda d:len(json.dumps(d['case'])))
    out.append({"property":"C15","signature":pre,"status":"known","sub":"overflow-check-builds","description":desc+" [leaf class: %s]"%pre.split(':')[-1],"minimal_case":d['case']})
out.append({"property":"C15","signature":"C15/panic:recursion/src/verifier/stark.rs::verify_p3_uni_proof_circuit:attempt to shift left with overflow:proof.degree_bits","status":"known","sub":"overflow-check-builds",
 "description":"OVERFLOW-CHECK BUILDS ONLY (as located by the cargo-fuzz default build; the harness's `dbg` profile reports the same panic as std@verify_circuit): `1 << degree_bits` in verify_p3_uni_proof_circuit with degree_bits >= 64.",
 "minimal_case":{"cfg":0,"muts":[{"class":0,"item":0,"op":{"Count":"Max"},"path":"proof.degree_bits"}]}})
TN="bsp.proof.opened_values.instances[0].base_opened_values.trace_next"
out.append({"property":"C15","signature":"C15/weaker-circuit:proof.opened_values.instances[].base_opened_values.trace_next:toggle+proof.opened_values.instances[].base_opened_values.trace_next:","status":"known","sub":"structural",
 "description":"trace_next = Some([]) for an AIR that does not open the next row (honest: None): native verify_batch rejects (UnexpectedTraceNext), BatchProofTargets flattens Option<Vec> into a Vec so Some([]) and None are the same circuit and the pipeline is Ok. Two encodings of 'no next-row opening'; no data is dropped, so this is benign, but it is a proof the native verifier rejects and the recursive one accepts. One-line repair: reject `trace_next.is_some()` when !air.opens_trace_next() at allocation/packing time.",
 "minimal_case":{"cfg":5,"muts":[{"class":0,"item":0,"op":"Toggle","path":TN},{"class":0,"item":0,"op":"Empty","path":TN}]}})
print("groups",len(out),"missing",missing,file=sys.stderr)
json.dump({"findings":out},open('/verif/incoming/c15/known_findings.c15.json','w'),indent=1)
base=json.load(open('/verif/known_findings.json'))
base['findings']=[f for f in base['findings'] if f['property']!='C15']+out
json.dump(base,open('/tmp/agents/c15/out/known_findings.json','w'),indent=1)
