#!/bin/bash
# Record the baseline of C15: which single alterations the CURRENT tree rejects while the
# verification circuit is built.  Run on a tree whose C15 quick tier is silent; commit the result.
set -e
cd /verif
D=$(mktemp -d)
C15_WRITE_GOLDEN=$D VERIF_DIR=$D ./.target/release/verif C15 >/dev/null 2>&1 || true
python3 - "$D" <<'PY'
import glob, json, subprocess, sys
keys=set()
for f in glob.glob(sys.argv[1]+'/golden-*.txt'):
    keys.update(l.rstrip('\n') for l in open(f) if l.strip())
tree=subprocess.run(['git','-C','/repo','rev-parse','--short','HEAD'],capture_output=True,text=True).stdout.strip()
json.dump({"tree":tree,"build_rejected":sorted(keys)},open('/verif/harness/src/checks/c15_golden.json','w'),indent=0)
print("recorded",len(keys),"keys for tree",tree)
PY
rm -rf "$D"
