#!/usr/bin/env python3
"""Record the revert-fix mutants: for each repair commit that was reverted in a scratch
worktree and caught by a check, store (a) the reverse patch + what was run under
/verif/seeded/revert-<name>/ and (b) a "fixed" entry in known_findings.json whose
minimal_case is the shrunk replay the check produced on the reverted tree."""
import glob, json, os, subprocess, sys

MUTANTS = {
 "dedup-bound": (["f0b5307"], "ALU dedup dropped an op whose output slot was already bound (honest run PublicInputNotSet / relation lost)"),
 "fusion": (["4cd5e30", "58fa6f0"], "mul+add fusion detached a product slot something else was tied to"),
 "fusion-horner-acc": (["4cd5e30"], "mul+add fusion ignored that a HornerAcc reads its accumulator"),
 "horner-dedup": (["13e02c3"], "dedup key of HornerAcc ignored the accumulator"),
 "creator-roles": (["59683e0", "4e97f6d"], "witness-bus creator roles of ALU rows for private inputs / hint outputs"),
 "operands-keep-creator": (["59683e0"], "operand aliased by out was skipped (BoolCheck column off the bus, b == out double creation)"),
 "packed-horner": (["4928b49"], "packed Horner row multiplied the first step's b multiplicity by k"),
 "recompose-coeff": (["b098a31"], "recompose/coeff and the first ALU use both created a hint coefficient"),
 "verify-metadata": (["e22d853"], "verify_all_tables panicked on inconsistent self-declared preprocessed metadata"),
 "unchecked-read": (["73ae2e3"], "ExecutionContext::get_witness unchecked read of an unset slot in optimized builds"),
 "fri-short-batch": (["12cb6e5"], "in-circuit FRI opened every batch with the global index bits"),
}

def main():
    kf = json.load(open("/verif/known_findings.json"))
    log = open("/tmp/rv/log_all.txt").read() + open("/tmp/rv/log_fri.txt").read()
    summary = []
    for name, (commits, what) in MUTANTS.items():
        rdir = f"/tmp/rv/out/{name}/replays"
        files = sorted(glob.glob(f"{rdir}/*.json"), key=os.path.getsize)
        by_prop = {}
        for f in files:
            d = json.load(open(f))
            by_prop.setdefault(d["property"], d)
        sdir = f"/verif/seeded/revert-{name}"
        os.makedirs(sdir, exist_ok=True)
        patch = ""
        for c in commits:
            patch += subprocess.run(["git", "-C", "/repo", "diff", f"{c}", f"{c}~1"], capture_output=True, text=True).stdout
        open(f"{sdir}/patch.diff", "w").write(patch)
        lines = [l for l in log.splitlines() if l.startswith(f"[{name}]")]
        caught = {p: d["signature"] for p, d in by_prop.items()}
        json.dump({
            "kind": "revert of a fix: commit (the defect the check originally found on the tree)",
            "reverts": commits,
            "what_failed": what,
            "breaks_properties": sorted(by_prop),
            "needs_to_manifest": "the program / proof shape stored in the replay files",
            "ran": "scratch worktree of /repo HEAD with the commit(s) reverted (git revert -n), harness copy pointed at it, quick tier of the listed checks",
            "results": lines,
            "caught_by": caught,
        }, open(f"{sdir}/meta.json", "w"), indent=1)
        for p, d in by_prop.items():
            json.dump(d, open(f"{sdir}/replay-{p}.json", "w"), indent=1)
            # fixed entry (one per property and signature)
            sig = d["signature"]
            kf["findings"] = [k for k in kf["findings"] if not (k["property"] == p and k["signature"] == sig and k["status"] == "fixed" and k.get("commit") == commits[0])]
            kf["findings"].append({
                "property": p, "signature": sig, "status": "fixed", "commit": commits[0],
                "description": f"fixed: property={p} {commits[0]} {what}",
                "sub": d["sub"], "minimal_case": d["case"],
            })
        summary.append((name, commits, caught))
    json.dump(kf, open("/verif/known_findings.json", "w"), indent=1)
    for s in summary:
        print(s)

main()
