#!/usr/bin/env python3
"""Print the markdown table of DESIGN.md section 10.2 from /verif/seeded/<id>/meta.json."""
import glob, json, os, sys
rows=[]
pattern='/verif/seeded/c[0-9][0-9]-'+sys.argv[1] if len(sys.argv)>1 and sys.argv[1] in ('b','c','d') else '/verif/seeded/c[0-9][0-9]'
for d in sorted(glob.glob(pattern)):
    m=json.load(open(d+'/meta.json'))
    sid=os.path.basename(d)
    readme=open(d+'/README.seeding-agent.md').read() if os.path.exists(d+'/README.seeding-agent.md') else ''
    title=next((l.lstrip('# ').strip() for l in readme.splitlines() if l.startswith('#')), '')
    caught=[]
    for k,v in sorted(m['my_checks_on_patched_tree'].items()):
        if v.get('credited') is False: continue
        if v['exit']==1: caught.append(f"{k}: `{(v['signatures'] or ['?'])[0].replace('|','/')}`")
    missed=[k for k,v in sorted(m['my_checks_on_patched_tree'].items()) if v['exit']==0]
    rows.append(f"| `{sid}` | {m['breaks_property']} | {title[:150]} | {'; '.join(caught) or '—'} | {', '.join(missed) or '—'} | {m.get('history','caught at first run.')} |")
print("| seed | property | change (seeding agent's title) | caught by (quick tier): first signature | other checks run that stayed silent | history |")
print("|---|---|---|---|---|---|")
print("\n".join(rows))
